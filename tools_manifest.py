"""Regenerate MANIFEST.json from the check modules' metadata."""
import importlib, json, os, sys
V = os.path.dirname(os.path.abspath(__file__))
sys.path[:0] = [V, os.path.join(V, ".deps")]
PENDING_REASON = "no check registered yet in this commit (under construction); the technique applies and a monitor is planned in DESIGN.md section 5"
props = [json.loads(l) for l in open(os.path.join(V, "properties.jsonl"))]
checks, na = [], []
for p in props:
    pid = p["id"]
    path = os.path.join(V, "vpkg", "checks", pid.lower() + ".py")
    if not os.path.exists(path):
        na.append({"property_id": pid, "reason": PENDING_REASON})
        continue
    m = importlib.import_module("vpkg.checks." + pid.lower())
    if getattr(m, "NOT_APPLICABLE", None):
        na.append({"property_id": pid, "reason": m.NOT_APPLICABLE})
        continue
    checks.append({
        "property_id": pid,
        "quick_cmd": "./check %s --tier quick" % pid,
        "thorough_cmd": "./check %s --tier thorough" % pid,
        "evidence_file": "/verif/evidence/%s.json" % pid,
        "replay_cmd_template": "./check --replay {path}",
        "engine": "vpkg",
        "level_claimed": {"category": m.LEVEL, "text": m.LEVEL_TEXT, "design_ref": "DESIGN.md section 5, %s" % pid},
        "level_note": m.LEVEL_NOTE,
        "technique": m.TECHNIQUE,
    })
man = {
    "version": 1,
    "setup_cmd": "./check setup",
    "hooks": {
        "guard": "BTC_HD_WALLET_VERIF",
        "enable": "no source hooks are needed: every monitor attaches from outside (class attributes, module globals, sys.monitoring, audit hooks, strace); the guard name is reserved and unused",
        "baseline_off_cmd": "cd /repo && /venv/bin/python -m pytest -ra -q -p no:cacheprovider --timeout=900 --continue-on-collection-errors",
        "source_commits": [],
        "add_only": True,
    },
    "engines": [{
        "name": "vpkg", "path": "/verif/vpkg",
        "serves_properties": [c["property_id"] for c in checks],
        "kind_free_text": "runtime monitoring: oracles (independent reference model in vpkg/ref) attached to the real functions via wrappers/icontract contracts, PRF failpoint, OS-entropy interposer + strace, audit hooks, sys.monitoring yield injection; sharded seeded workloads; three-valued verdicts",
    }],
    "checks": checks,
    "not_applicable": na,
    "notes": "Exit 0 held / 1 VIOLATION / 2 INCONCLUSIVE (deciding monitor not reached, oracle self-test failed, watchdog). Known findings: /verif/known_findings.json. Self-validation: ./check selftest mutants|seeded|silence.",
}
json.dump(man, open(os.path.join(V, "MANIFEST.json"), "w"), indent=1)
print("checks:", [c["property_id"] for c in checks], "n/a:", [x["property_id"] for x in na])
