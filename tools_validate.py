"""Validate MANIFEST.json and evidence/*.json against the given schemas."""
import json, sys, glob, os
sys.path.insert(0, os.path.join(os.path.dirname(os.path.abspath(__file__)), ".deps"))
import jsonschema
V = os.path.dirname(os.path.abspath(__file__))
ok = True
ms = json.load(open("/root/.vp/MANIFEST.schema.json"))
es = json.load(open("/root/.vp/EVIDENCE.schema.json"))
if os.path.exists(V + "/MANIFEST.json"):
    try:
        jsonschema.validate(json.load(open(V + "/MANIFEST.json")), ms); print("MANIFEST ok")
    except Exception as e:
        ok = False; print("MANIFEST INVALID", str(e)[:500])
for f in sorted(glob.glob(V + "/evidence/*.json")):
    try:
        jsonschema.validate(json.load(open(f)), es); print(os.path.basename(f), "ok")
    except Exception as e:
        ok = False; print(f, "INVALID", str(e)[:500])
sys.exit(0 if ok else 1)
