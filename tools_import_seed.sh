#!/bin/bash
# Confirm an independently written property-breaking change in its scratch worktree and import it into /verif/seeded/<name>/
# usage: tools_import_seed.sh <worktree> <property> <name>
# patch.diff is the source of truth; no `git stash` (the stash is shared by all worktrees of a repository).
set -u
W=$1; P=$2; NAME=$3
cd "$W" || exit 1
[ -s patch.diff ] || { echo "empty patch"; exit 1; }
T=$(mktemp -d /var/tmp/vp-import-XXXXXX)   # (per invocation: two imports running at the same time once shared one file and stored each other's patch)
trap 'rm -rf "$T"' EXIT
cp patch.diff $T/seed_patch.diff
git checkout -q -- btc_hd_wallet tests 2>/dev/null
git apply --check $T/seed_patch.diff && echo "patch applies cleanly on clean tree"; APPLY=$?
echo "== files touched: $(grep '^+++ ' $T/seed_patch.diff | tr '\n' ' ')"
echo "== demo without change"
PYTHONPATH=$W PYTHONDONTWRITEBYTECODE=1 timeout 1200 /venv/bin/python demo.py > $T/demo_without.txt 2>&1; RC_WITHOUT=$?; tail -2 $T/demo_without.txt; echo "exit=$RC_WITHOUT"
git apply $T/seed_patch.diff || { echo "apply failed"; exit 1; }
echo "== suite with change"
SUITE=$(PYTHONPATH=$W PYTHONDONTWRITEBYTECODE=1 /venv/bin/python -m pytest -q -p no:cacheprovider tests 2>&1 | tail -1); echo "$SUITE"
echo "== demo with change"
PYTHONPATH=$W PYTHONDONTWRITEBYTECODE=1 timeout 1200 /venv/bin/python demo.py > $T/demo_with.txt 2>&1; RC_WITH=$?; tail -3 $T/demo_with.txt; echo "exit=$RC_WITH"
D=/verif/seeded/$NAME; mkdir -p $D
cp $T/seed_patch.diff $D/patch.diff; cp demo.py $D/demo.py; [ -f NOTES.md ] && cp NOTES.md $D/NOTES.md
python3 - "$D" "$P" "$SUITE" "$RC_WITH" "$RC_WITHOUT" "$APPLY" <<'PY'
import json, sys, os
d, prop, suite, rcw, rcwo, apply = sys.argv[1:]
notes = open(d + "/NOTES.md").read() if os.path.exists(d + "/NOTES.md") else ""
ok = int(rcw) != 0 and int(rcwo) == 0 and "124 passed" in suite
json.dump({"property": prop, "origin": "written by an independent sub-agent given only the property text and a scratch worktree of /repo",
           "needs_to_manifest": notes[:1500],
           "confirmed": {"suite_with_change": suite, "demo_exit_with_change": int(rcw), "demo_exit_without_change": int(rcwo),
                         "patch_applies_on_clean_tree": apply == "0",
                         "commands": ["git checkout -- btc_hd_wallet; PYTHONPATH=<worktree> /venv/bin/python demo.py   (must exit 0)",
                                      "git apply patch.diff; cd <worktree> && PYTHONPATH=<worktree> /venv/bin/python -m pytest -q -p no:cacheprovider tests   (124 passed + the known root-only failure)",
                                      "PYTHONPATH=<worktree> /venv/bin/python demo.py   (must exit non-zero)"]},
           "caught_by": [prop]}, open(d + "/meta.json", "w"), indent=1)
print("imported", d, "OK" if ok else "NOT-CONFIRMED")
PY
