#!/bin/bash
# Confirm an independently written property-breaking change in its scratch worktree and import it into /verif/seeded/<name>/
# usage: tools_import_seed.sh <worktree> <property> <name>
set -u
W=$1; P=$2; NAME=$3
cd "$W" || exit 1
git diff -- btc_hd_wallet > /tmp/_cur.diff
if ! diff -q /tmp/_cur.diff patch.diff >/dev/null; then echo "NOTE: patch.diff differs from working tree diff; using working tree diff"; cp /tmp/_cur.diff patch.diff; fi
[ -s patch.diff ] || { echo "empty patch"; exit 1; }
echo "== suite with change"
SUITE=$(PYTHONPATH=$W PYTHONDONTWRITEBYTECODE=1 /venv/bin/python -m pytest -q -p no:cacheprovider tests 2>&1 | tail -1); echo "$SUITE"
echo "== demo with change"
PYTHONPATH=$W PYTHONDONTWRITEBYTECODE=1 timeout 900 /venv/bin/python demo.py > /tmp/_demo_with.txt 2>&1; RC_WITH=$?; tail -3 /tmp/_demo_with.txt; echo "exit=$RC_WITH"
git stash -q -- btc_hd_wallet
echo "== demo without change"
PYTHONPATH=$W PYTHONDONTWRITEBYTECODE=1 timeout 900 /venv/bin/python demo.py > /tmp/_demo_without.txt 2>&1; RC_WITHOUT=$?; tail -2 /tmp/_demo_without.txt; echo "exit=$RC_WITHOUT"
git apply --check patch.diff && echo "patch applies cleanly on clean tree"; APPLY=$?
git stash pop -q
D=/verif/seeded/$NAME; mkdir -p $D
cp patch.diff $D/patch.diff; cp demo.py $D/demo.py; [ -f NOTES.md ] && cp NOTES.md $D/NOTES.md
python3 - "$D" "$P" "$SUITE" "$RC_WITH" "$RC_WITHOUT" "$APPLY" <<'PY'
import json, sys
d, prop, suite, rcw, rcwo, apply = sys.argv[1:]
notes = open(d + "/NOTES.md").read() if __import__("os").path.exists(d + "/NOTES.md") else ""
json.dump({"property": prop, "origin": "written by an independent sub-agent given only the property text and a scratch worktree of /repo",
           "needs_to_manifest": notes[:1500],
           "confirmed": {"suite_with_change": suite, "demo_exit_with_change": int(rcw), "demo_exit_without_change": int(rcwo),
                         "patch_applies_on_clean_tree": apply == "0",
                         "commands": ["cd <worktree> && PYTHONPATH=<worktree> /venv/bin/python -m pytest -q -p no:cacheprovider tests",
                                      "PYTHONPATH=<worktree> /venv/bin/python demo.py  (with the change, and after git stash)"]},
           "caught_by": [prop]}, open(d + "/meta.json", "w"), indent=1)
print("imported", d, "OK" if (int(rcw) != 0 and int(rcwo) == 0 and "124 passed" in suite) else "NOT-CONFIRMED")
PY
