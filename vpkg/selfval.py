"""Self-validation of the machinery.

  python -m vpkg.selfval mutants [--only ID[,ID]] [--prop C01] [--suite] [--jobs N]
      for each mutant in mutants/mutants.py: copy /repo to a scratch dir
      outside /repo and /verif, apply the textual replacement, optionally run
      the pinned suite there (it must still pass), run the property's quick
      check against the copy, require exit 1 + VIOLATION, delete the copy.
  python -m vpkg.selfval seeded [--only ID]
      same for /verif/seeded/<id>/patch.diff (applied with `git apply`).
  python -m vpkg.selfval silence --seeds 0-4 [--tier quick] [--props C01,C02]
      run checks on the unchanged tree for several seeds; any non-zero exit is reported.
"""
import argparse
import concurrent.futures as cf
import importlib.util
import json
import os
import shutil
import subprocess
import sys
import tempfile
import time

VERIF = os.path.dirname(os.path.dirname(os.path.abspath(__file__)))
PY = "/venv/bin/python"
SCRATCH = os.environ.get("VP_SCRATCH", "/var/tmp")
TEST_IDS_EXCLUDE = ["tests/test_parser.py::TestArgumentParsing::test_invalid_file_argument"]


def load_mutants():
    spec = importlib.util.spec_from_file_location("mutants", os.path.join(VERIF, "mutants", "mutants.py"))
    m = importlib.util.module_from_spec(spec)
    spec.loader.exec_module(m)
    return m.MUTANTS


def copy_repo(dst):
    subprocess.run(["rsync", "-a", "--exclude", ".git", "--exclude", "__pycache__", "--exclude", "*.egg-info",
                    "/repo/", dst + "/"], check=True)


def run_suite(repo):
    env = dict(os.environ, PYTHONPATH=repo, PYTHONDONTWRITEBYTECODE="1")
    p = subprocess.run([PY, "-m", "pytest", "-q", "-x", "-p", "no:cacheprovider", "--timeout=900",
                        "--deselect", TEST_IDS_EXCLUDE[0], "tests"], cwd=repo, env=env,
                       capture_output=True, text=True, timeout=1800)
    return p.returncode == 0, (p.stdout + p.stderr)[-600:]


def run_check(prop, repo, tier="quick", seed=0):
    env = dict(os.environ, PYTHONPATH=VERIF, PYTHONDONTWRITEBYTECODE="1", PYTHONHASHSEED="0")
    # separate run dir per mutant so parallel runs don't collide
    p = subprocess.run([PY, "-m", "vpkg.driver", prop, "--tier", tier, "--seed", str(seed), "--repo", repo,
                        "--no-evidence", "--rundir", os.path.join(repo, "..", "run")],
                       cwd=VERIF, env=env, capture_output=True, text=True, timeout=3600)
    return p.returncode, p.stdout + p.stderr


def one_mutant(m, suite, tier="quick"):
    t0 = time.time()
    d = tempfile.mkdtemp(prefix="vp-mut-", dir=SCRATCH)
    repo = os.path.join(d, "repo")
    os.makedirs(repo)
    try:
        copy_repo(repo)
        out = {"id": m["id"], "props": m["props"]}
        if "patch" in m:
            p = subprocess.run(["patch", "-p1", "-s", "-d", repo, "-i", m["patch"]],
                               capture_output=True, text=True)
            if p.returncode != 0:
                out["status"] = "patch-failed: " + (p.stdout + p.stderr)[-300:]
                return out
        else:
            edits = m.get("edits") or [m]
            for ed in edits:
                path = os.path.join(repo, ed["file"])
                src = open(path).read()
                if src.count(ed["old"]) != ed.get("count", 1):
                    out["status"] = "anchor-mismatch(%d) in %s" % (src.count(ed["old"]), ed["file"])
                    return out
                open(path, "w").write(src.replace(ed["old"], ed["new"]))
        if suite:
            ok, tail = run_suite(repo)
            out["suite_passes"] = ok
            if not ok:
                out["suite_tail"] = tail
        res = {}
        for prop in m["props"]:
            rc, text = run_check(prop, repo, tier)
            res[prop] = {"exit": rc, "violation_line": any(l.startswith("VIOLATION property=%s " % prop) for l in text.splitlines()),
                         "first": next((l for l in text.splitlines() if l.strip().startswith("witness:")), "")[:400]}
            if rc not in (0, 1):
                res[prop]["tail"] = text[-500:]
        out["checks"] = res
        out["caught"] = all(r["exit"] == 1 and r["violation_line"] for r in res.values())
        out["status"] = "caught" if out["caught"] else "MISSED"
        out["wall_s"] = round(time.time() - t0, 1)
        return out
    finally:
        shutil.rmtree(d, ignore_errors=True)


def cmd_mutants(a):
    muts = load_mutants()
    if a.only:
        ids = set(a.only.split(","))
        muts = [m for m in muts if m["id"] in ids]
    if a.prop:
        muts = [m for m in muts if a.prop in m["props"]]
    results = []
    with cf.ThreadPoolExecutor(max_workers=a.jobs) as ex:
        for r in ex.map(lambda m: one_mutant(m, a.suite), muts):
            results.append(r)
            line = "%-40s %-8s %s" % (r["id"], r.get("status"), " ".join("%s:exit%s" % (k, v["exit"]) for k, v in r.get("checks", {}).items()))
            if a.suite:
                line += "  suite_passes=%s" % r.get("suite_passes")
            print(line, flush=True)
            if r.get("status") != "caught":
                print("   ", json.dumps(r)[:900])
    missed = [r["id"] for r in results if r.get("status") != "caught"]
    os.makedirs(os.path.join(VERIF, ".run"), exist_ok=True)
    json.dump(results, open(os.path.join(VERIF, ".run", "selfval_mutants.json"), "w"), indent=1)
    print("mutants: %d run, %d caught, missed: %s" % (len(results), len(results) - len(missed), missed))
    return 1 if missed else 0


def cmd_benign(a):
    """Property-preserving refactorings: every listed check must exit 0 (no alarm, not inconclusive)."""
    spec = importlib.util.spec_from_file_location("mutants", os.path.join(VERIF, "mutants", "mutants.py"))
    m = importlib.util.module_from_spec(spec)
    spec.loader.exec_module(m)
    bad = []
    with cf.ThreadPoolExecutor(max_workers=a.jobs) as ex:
        for r in ex.map(lambda mm: one_mutant(mm, a.suite), m.BENIGN):
            exits = {k: v["exit"] for k, v in r.get("checks", {}).items()}
            ok = r.get("status") in ("caught", "MISSED") and all(e == 0 for e in exits.values()) and (not a.suite or r.get("suite_passes"))
            print("%-45s %s %s%s" % (r["id"], "silent" if ok else "ALARM/INCONCLUSIVE", exits, ("  suite_passes=%s" % r.get("suite_passes")) if a.suite else ""), flush=True)
            if not ok:
                bad.append(r["id"])
                print("   ", json.dumps(r)[:1200])
    print("benign refactorings: %d run, not silent: %s" % (len(m.BENIGN), bad))
    return 1 if bad else 0


def cmd_seeded(a):
    root = os.path.join(VERIF, "seeded")
    muts = []
    for sid in sorted(os.listdir(root)):
        meta = os.path.join(root, sid, "meta.json")
        if not os.path.exists(meta):
            continue
        md = json.load(open(meta))
        muts.append({"id": sid, "props": md.get("caught_by") or [md["property"]], "patch": os.path.join(root, sid, "patch.diff")})
    if a.only:
        ids = set(a.only.split(","))
        muts = [m for m in muts if m["id"] in ids]
    results = []
    with cf.ThreadPoolExecutor(max_workers=a.jobs) as ex:
        for r in ex.map(lambda m: one_mutant(m, a.suite), muts):
            results.append(r)
            print("%-40s %-8s %s" % (r["id"], r.get("status"), " ".join("%s:exit%s" % (k, v["exit"]) for k, v in r.get("checks", {}).items())), flush=True)
            if r.get("status") != "caught":
                print("   ", json.dumps(r)[:900])
    missed = [r["id"] for r in results if r.get("status") != "caught"]
    print("seeded: %d run, missed: %s" % (len(results), missed))
    return 1 if missed else 0


def cmd_silence(a):
    lo, _, hi = a.seeds.partition("-")
    seeds = range(int(lo), int(hi or lo) + 1)
    props = a.props.split(",") if a.props else ["C%02d" % i for i in range(1, 21)]
    bad = []
    for prop in props:
        for s in seeds:
            env = dict(os.environ, PYTHONPATH=VERIF, PYTHONHASHSEED="0")
            p = subprocess.run([PY, "-m", "vpkg.driver", prop, "--tier", a.tier, "--seed", str(s), "--no-evidence"],
                               cwd=VERIF, env=env, capture_output=True, text=True)
            last = (p.stdout.strip().splitlines() or [""])[-1]
            print("%s seed=%d exit=%d %s" % (prop, s, p.returncode, last[:160]), flush=True)
            if p.returncode != 0:
                bad.append((prop, s))
                print(p.stdout[-1500:])
    print("silence: alarms on unchanged tree:", bad)
    return 1 if bad else 0


def cmd_standin(a):
    """Observation-only second configuration: pure-Python pysecp256k1 stand-in => the libsecp `try:` arms execute."""
    props = a.props.split(",") if a.props else ["C01", "C02", "C03", "C05", "C06", "C07", "C09", "C12", "C13", "C14", "C16", "C18"]
    total = 0
    for prop in props:
        env = dict(os.environ, PYTHONPATH=VERIF, PYTHONHASHSEED="0")
        p = subprocess.run([PY, "-m", "vpkg.driver", prop, "--tier", a.tier, "--backend", "standin"], cwd=VERIF, env=env, capture_output=True, text=True)
        for ln in p.stdout.splitlines():
            if ln.startswith(("OBSERVATION", "NOTE", "STANDIN-DONE")):
                print(ln[:400], flush=True)
            if ln.startswith("OBSERVATION"):
                total += 1
    print("stand-in configuration: %d observation(s) over %s" % (total, props))
    return 0


def cmd_suite(a):
    """Repository's own suite with every probe installed (pytest plugin vpkg.suiteprobe)."""
    out = os.path.join(VERIF, ".run", "suiteprobe.json")
    env = dict(os.environ, PYTHONPATH=os.pathsep.join([VERIF, os.path.join(VERIF, ".deps")]), PYTHONDONTWRITEBYTECODE="1", VP_SUITE_OUT=out)
    p = subprocess.run([PY, "-m", "pytest", "-q", "-p", "no:cacheprovider", "-p", "vpkg.suiteprobe", "--deselect", TEST_IDS_EXCLUDE[0], "tests"],
                       cwd="/repo", env=env, capture_output=True, text=True, timeout=3600)
    print(p.stdout[-2500:])
    res = json.load(open(out))
    bad = res["violations"]
    reached = sum(m["reached"] for m in res["monitors"].values())
    print("suite under probes: pytest exit=%d, probe adjudications=%d, disagreements=%d" % (p.returncode, reached, len(bad)))
    return 1 if (bad or p.returncode != 0 or reached == 0) else 0


def main():
    ap = argparse.ArgumentParser()
    sub = ap.add_subparsers(dest="cmd")
    m = sub.add_parser("mutants")
    m.add_argument("--only")
    m.add_argument("--prop")
    m.add_argument("--suite", action="store_true")
    m.add_argument("--jobs", type=int, default=2)
    s = sub.add_parser("seeded")
    s.add_argument("--only")
    s.add_argument("--suite", action="store_true")
    s.add_argument("--jobs", type=int, default=2)
    q = sub.add_parser("silence")
    q.add_argument("--seeds", default="0-2")
    q.add_argument("--tier", default="quick")
    q.add_argument("--props", default=None)
    sub.add_parser("suite")
    st = sub.add_parser("standin")
    st.add_argument("--props", default=None)
    st.add_argument("--tier", default="quick")
    bn = sub.add_parser("benign")
    bn.add_argument("--suite", action="store_true")
    bn.add_argument("--jobs", type=int, default=3)
    a = ap.parse_args()
    sys.exit({"mutants": cmd_mutants, "seeded": cmd_seeded, "silence": cmd_silence, "suite": cmd_suite, "benign": cmd_benign, "standin": cmd_standin}[a.cmd](a))


if __name__ == "__main__":
    main()
