"""Attachment layer: put monitors on the *real* functions of btc_hd_wallet from
outside, so that every call made by any workload is adjudicated.

Two mechanisms:
  * observe_function / observe_method: generic call/return/raise recorder that
    hands (args, result | exception) to an oracle callback.  Needed because
    icontract/deal do not evaluate postconditions after a raise, and several
    properties are about *raising*.
  * icontract snapshot/ensure contracts for state-before/state-after clauses
    on normal return (see contract_ckd_state).

Module-level functions are rebound in *every* loaded btc_hd_wallet.* namespace
holding a reference (the package uses `from helper import f` everywhere).
"""
import functools
import sys
import types


def repo_modules():
    return [m for n, m in list(sys.modules.items())
            if (n == "btc_hd_wallet" or n.startswith("btc_hd_wallet.")) and m is not None]


def rebind_everywhere(orig, new):
    """Replace every module-global in btc_hd_wallet.* that `is orig`.
    Returns list of (module, name) holders rebound."""
    holders = []
    for mod in repo_modules():
        for name, val in list(vars(mod).items()):
            if val is orig:
                setattr(mod, name, new)
                holders.append((mod.__name__, name))
    return holders


class Installed:
    """Bookkeeping so that probes can be removed again."""

    def __init__(self):
        self.undo = []
        self.holders = {}

    def remove(self):
        for fn in reversed(self.undo):
            fn()
        self.undo = []


CALLBACK_ERRORS = []     # (errors raised by an observer's own callback: recorded, never part of the observed call's outcome)


def _observe(on_event, name, a, kw, res, exc):
    """An observer must not change what it observes: an error inside the callback (it touched a lazily computed attribute of a
    half-valid object, say) would otherwise surface as an exception of the OBSERVED call - and be taken for a refusal."""
    try:
        on_event(name, a, kw, res, exc)
    except Exception as e:  # noqa
        if len(CALLBACK_ERRORS) < 20:
            CALLBACK_ERRORS.append("%s: %s: %s" % (name, type(e).__name__, str(e)[:120]))


def _make_wrapper(orig, on_event, name):
    @functools.wraps(orig)
    def wrapper(*a, **kw):
        try:
            res = orig(*a, **kw)
        except (KeyboardInterrupt, SystemExit, GeneratorExit):
            raise
        except BaseException as e:  # noqa
            _observe(on_event, name, a, kw, None, e)
            raise
        _observe(on_event, name, a, kw, res, None)
        return res
    wrapper.__vp_orig__ = orig
    return wrapper


def observe_function(inst, module, fname, on_event):
    """Wrap module-level function module.fname; rebind all holders."""
    orig = getattr(module, fname)
    w = _make_wrapper(orig, on_event, "%s.%s" % (module.__name__.split(".")[-1], fname))
    holders = rebind_everywhere(orig, w)
    if not holders:
        setattr(module, fname, w)
        holders = [(module.__name__, fname)]
    inst.holders["%s.%s" % (module.__name__, fname)] = holders

    def undo():
        rebind_everywhere(w, orig)
    inst.undo.append(undo)
    return holders


def observe_method(inst, cls, mname, on_event):
    """Wrap a method / classmethod / staticmethod / property defined on cls."""
    raw = cls.__dict__[mname]
    label = "%s.%s" % (cls.__name__, mname)
    if isinstance(raw, classmethod):
        new = classmethod(_make_wrapper(raw.__func__, on_event, label))
    elif isinstance(raw, staticmethod):
        new = staticmethod(_make_wrapper(raw.__func__, on_event, label))
    elif isinstance(raw, property):
        new = property(_make_wrapper(raw.fget, on_event, label), raw.fset, raw.fdel, raw.__doc__)
    elif isinstance(raw, types.FunctionType):
        new = _make_wrapper(raw, on_event, label)
    else:
        raise TypeError("cannot wrap %r" % raw)
    setattr(cls, mname, new)

    def undo():
        setattr(cls, mname, raw)
    inst.undo.append(undo)


# ----------------------------------------------------------------- icontract
class StateContractBroken(Exception):
    pass


def try_install(ctx, what, fn, *a, **kw):
    """Install a probe if its attachment point exists; an internal name that was renamed / inlined by a refactoring
    only loses the extra observability (noted in the evidence), it is not a verdict."""
    try:
        return fn(*a, **kw)
    except (AttributeError, KeyError, TypeError) as e:
        ctx.extra.setdefault("probes_not_attached", []).append("%s: %s" % (what, type(e).__name__))
        return None


def contract_ckd_state(inst, cls, recorder):
    """icontract snapshot/ensure on cls.ckd: the parent's identity tuple is
    unchanged by the call and the returned node was appended to children.
    Conditions record and return True (they never perturb the execution)."""
    import icontract

    raw = cls.__dict__["ckd"]

    def ident_of(self):
        # the key MATERIAL and metadata a caller can observe (not object identities or lazily filled caches)
        try:
            kb = bytes(self.key)
            if len(kb) == 33 and kb[0] == 0:
                kb = kb[1:]
            return (kb, bytes(self.chain_code), self.depth, self.index, bool(self.testnet))
        except Exception as e:  # noqa  (an observer never raises into the call it observes)
            if len(CALLBACK_ERRORS) < 20:
                CALLBACK_ERRORS.append("ckd.ident_of: %r" % (e,))
            return None

    def n_children(self):
        try:
            return len(self.children)
        except Exception:  # noqa
            return -1

    def parent_unchanged(self, result, OLD):
        try:
            if OLD.ident is not None:
                recorder("ckd.parent_identity_unchanged", ident_of(self) == OLD.ident, self, result, OLD.ident)
        except Exception as e:  # noqa
            if len(CALLBACK_ERRORS) < 20:
                CALLBACK_ERRORS.append("ckd.parent_unchanged: %r" % (e,))
        return True

    def child_appended(self, result, OLD):
        # under threads other appends may interleave: demand growth and
        # presence of the returned node in the appended tail
        try:
            kids = list(self.children.values()) if isinstance(self.children, dict) else list(self.children)
            ok = len(kids) >= OLD.n + 1 and any(c is result for c in kids[OLD.n:])
        except Exception:  # noqa  (whatever container the library keeps its children in: this is an observation only)
            ok = None
        # bookkeeping of `children` is not part of any property: reported as an observation, never a verdict
        try:
            recorder("ckd.child_appended(observation)", True if ok else None, self, result, OLD.n)
        except Exception:  # noqa
            pass
        return True

    f = raw
    f = icontract.ensure(child_appended, error=StateContractBroken, enabled=True)(f)
    f = icontract.ensure(parent_unchanged, error=StateContractBroken, enabled=True)(f)
    f = icontract.snapshot(n_children, name="n", enabled=True)(f)
    f = icontract.snapshot(ident_of, name="ident", enabled=True)(f)
    setattr(cls, "ckd", f)

    def undo():
        setattr(cls, "ckd", raw)
    inst.undo.append(undo)
