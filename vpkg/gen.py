"""Seeded generators and boundary corpora shared by the checks."""
from .ref import secp

N = secp.N
H = 1 << 31


def rbytes(rnd, n):
    return rnd.getrandbits(8 * n).to_bytes(n, "big") if n else b""


def scalar_corners():
    """(tag, k) boundary scalars in [1, n-1]."""
    out = [("k=1", 1), ("k=2", 2), ("k=3", 3), ("k=n-1", N - 1), ("k=n-2", N - 2),
           ("k=(n-1)/2", (N - 1) // 2), ("k=(n+1)/2", (N + 1) // 2)]
    for b in (8, 16, 64, 128, 200, 248, 255):
        out.append(("k=2^%d" % b, 1 << b))
        out.append(("k=2^%d-1" % b, (1 << b) - 1))
    return out


def scalar(rnd):
    """(tag, k): random scalar with class diversity."""
    r = rnd.random()
    if r < 0.12:
        return rnd.choice(scalar_corners())
    if r < 0.32:
        z = rnd.randrange(1, 32)  # leading zero bytes
        k = rnd.getrandbits(8 * (32 - z)) or 1
        return ("k:lz%d" % (32 - (k.bit_length() + 7) // 8), k)
    if r < 0.40:
        return ("k:near-n", N - rnd.randrange(1, 1 << 20))
    if r < 0.45:
        return ("k:small", rnd.randrange(1, 1 << 16))
    if r < 0.57:
        # byte patterns at either END of ser256(k) that mean something in a neighbouring encoding: 01 = WIF compression
        # flag, 00 = pad byte, 02/03/04 = SEC prefixes, blanks/newline = what str/bytes.strip removes
        first = rnd.choice([None, None, 0x02, 0x03, 0x04, 0x00, 0x80, 0xEF, 0x20])
        last = rnd.choice([0x01, 0x01, 0x00, 0x20, 0x0A, 0x09, 0x0D, 0x02, None])
        b = bytearray(rbytes(rnd, 32))
        b[0] &= 0x7F
        if first is not None:
            b[0] = first
        if last is not None:
            b[31] = last
        k = int.from_bytes(bytes(b), "big") % N or 1
        return ("k:ends:%s-%s" % ("%02x" % first if first is not None else "xx", "%02x" % last if last is not None else "xx"), k)
    return ("k:random", rnd.randrange(1, N))


def chain_code(rnd):
    r = rnd.random()
    if r < 0.04:
        return ("c:zero", b"\x00" * 32)
    if r < 0.08:
        return ("c:ff", b"\xff" * 32)
    if r < 0.12:
        z = rnd.randrange(1, 31)
        return ("c:lz", b"\x00" * z + rbytes(rnd, 32 - z))
    return ("c:random", rbytes(rnd, 32))


INDEX_CORNERS = [0, 1, 2, H - 2, H - 1, H, H + 1, H + 2, 2 * H - 2, 2 * H - 1]
# numbers that MEAN something elsewhere in the library (purposes, BIP85 applications, word counts, push-length and varint
# thresholds, round numbers): an account / index / count that happens to equal one must not be mistaken for it
MEANINGFUL = [44, 49, 84, 83696968, 39, 2, 32, 128169, 707764, 12, 24, 75, 76, 255, 256, 520, 1000, 16384, 65535, 65536, 1000000]


_MEANINGFUL_NOW = None


def meaningful():
    """MEANINGFUL plus every number below 2^32 that the code under test holds NOW and the pinned tree did not (vpkg.harvest):
    a number a change introduces - a magic index, a special account, a new limit - is tried as account / index / count together
    with its neighbours."""
    global _MEANINGFUL_NOW
    if _MEANINGFUL_NOW is None:
        out = list(MEANINGFUL)
        try:
            from . import harvest
            from .core import REPO
            base = harvest.baseline()
            new = sorted(k for k in harvest.ints(REPO) if 0 <= k < (1 << 32) and k not in base)[:64]
            for k in new:
                for v in (k, k - 1, k + 1):
                    if 0 <= v < (1 << 32) and v not in out:
                        out.append(v)
        except Exception:  # noqa
            pass
        _MEANINGFUL_NOW = out
    return _MEANINGFUL_NOW


def new_numbers(limit=24):
    """Numbers below 2^31 that the code under test holds now and the pinned tree did not (constants and digits inside identifiers)."""
    try:
        from . import harvest
        from .core import REPO
        base = harvest.baseline()
        return sorted(k for k in harvest.ints(REPO) if 0 <= k < H and k not in base)[:limit]
    except Exception:  # noqa
        return []


def account(rnd):
    r = rnd.random()
    if r < 0.25:
        return 0
    if r < 0.32:
        return 1
    if r < 0.40:
        return H - 2
    if r < 0.48:
        return H - 1
    if r < 0.72:
        return rnd.choice(meaningful()) % H
    return rnd.randrange(0, H)


def index(rnd, hardened=None):
    """(tag, i). hardened: None=both sides, True/False restricts."""
    r = rnd.random()
    if r > 0.92:
        # numbers that mean something elsewhere in the library, or that a change has just written into it
        i = rnd.choice(meaningful()) % H
        if hardened or (hardened is None and rnd.random() < 0.4):
            i += H
    elif hardened is None:
        if r < 0.35:
            i = rnd.choice(INDEX_CORNERS)
        elif r < 0.5:
            i = rnd.randrange(0, 64) + (H if rnd.random() < 0.5 else 0)
        else:
            i = rnd.randrange(0, 1 << 32)
    elif hardened:
        i = rnd.choice([H, H + 1, 2 * H - 1, 2 * H - 2]) if r < 0.3 else rnd.randrange(H, 2 * H)
    else:
        i = rnd.choice([0, 1, 2, H - 1, H - 2]) if r < 0.3 else rnd.randrange(0, H)
    tag = "i:" + ("hard" if i >= H else "norm")
    if i in INDEX_CORNERS:
        tag += ":edge"
    return (tag, i)


def depth(rnd):
    r = rnd.random()
    if r < 0.4:
        return rnd.choice([0, 1, 2, 3, 4, 5])
    if r < 0.6:
        return rnd.choice([126, 127, 128, 253, 254])
    return rnd.randrange(0, 255)


def leading_zero_x_scalars():
    """Committed corpus of scalars whose public key x-coordinate has leading
    zero bytes; property re-verified at load by the own curve."""
    import json
    import os
    p = os.path.join(os.path.dirname(os.path.dirname(os.path.abspath(__file__))), "corpus", "lzx_scalars.json")
    if not os.path.exists(p):
        return []
    out = []
    for k in json.load(open(p)):
        k = int(k, 16)
        x = secp.gmul(k)[0]
        if x >> 248 == 0:
            out.append(k)
    return out


def high_coordinate_points():
    """Committed corpus of curve points with a coordinate in [n, p) (group order <= coordinate < field prime; about 2^-128 of
    all points - a key anyone can construct and hand over as a public key, never met by sampling); re-certified at load."""
    import json
    import os
    p = os.path.join(os.path.dirname(os.path.dirname(os.path.abspath(__file__))), "corpus", "high_coordinate_points.json")
    if not os.path.exists(p):
        return []
    out = []
    for xs, ys in json.load(open(p))["points"]:
        pt = (int(xs, 16), int(ys, 16))
        if secp.on_curve(pt) and (pt[0] >= N or pt[1] >= N):
            out.append(pt)
    return out


def leading_zero_y_scalars(limit=16):
    """Committed corpus of (small) scalars whose public key Y-coordinate has a leading zero byte - only the UNCOMPRESSED
    SEC form shows it; property re-verified at load by the own curve."""
    import json
    import os
    p = os.path.join(os.path.dirname(os.path.dirname(os.path.abspath(__file__))), "corpus", "lzy_scalars.json")
    if not os.path.exists(p):
        return []
    out = []
    for k in json.load(open(p))[:limit]:
        k = int(k, 16)
        if secp.gmul(k)[1] >> 248 == 0:
            out.append(k)
    return out


def fingerprint_collisions():
    """Committed corpus of scalar pairs whose public keys share the 4-byte BIP32 fingerprint HASH160(serP(K))[:4] (found
    by a birthday search over ~10^5 consecutive scalars; re-verified at load).  Anything keyed by a fingerprint - a
    truncated identifier - confuses such keys."""
    import json
    import os
    from .ref import hashes
    p = os.path.join(os.path.dirname(os.path.dirname(os.path.abspath(__file__))), "corpus", "fp_collisions.json")
    if not os.path.exists(p):
        return []
    out = []
    for a, b, _fp in json.load(open(p)):
        a, b = int(a, 16), int(b, 16)
        fa = hashes.hash160(secp.ser(secp.gmul(a), True))[:4]
        fb = hashes.hash160(secp.ser(secp.gmul(b), True))[:4]
        if a != b and fa == fb:
            out.append((a, b))
    return out


def hash160_rare_inputs():
    """Committed corpus of byte strings x for which HASH160(x) = RIPEMD160(SHA256(x)) drives RIPEMD-160 through a RARE internal
    word: the word rotated in some step, or the word given to the fixed rotation by 10, is 0xffffffff or 0 (found by a
    vectorised scan of 2.4*10^8 inputs; each item is re-certified at load by the instrumented own implementation)."""
    import hashlib
    import json
    import os
    from .ref import hashes
    p = os.path.join(os.path.dirname(os.path.dirname(os.path.abspath(__file__))), "corpus", "hash160_rare_ripemd_states.json")
    if not os.path.exists(p):
        return []
    out = []
    for text, events in json.load(open(p)):
        msg = text.encode()
        got, _digest = hashes.ripemd160_rare_events(hashlib.sha256(msg).digest())
        if got and set(events) <= got:
            out.append((msg, "+".join(sorted(got))))
    return out


_CONF = {}
_CONF_CASE = {}


def confusables():
    """Map ASCII char -> list of non-ASCII code points that turn into it under str.lower / upper / casefold /
    NFKC / NFKD (e.g. U+212A KELVIN SIGN -> 'k', U+017F LONG S -> 's'/'S', fullwidth and mathematical letters/digits).
    A decoder that normalises before validating accepts such strings; the specifications accept none of them."""
    if _CONF:
        return _CONF
    import unicodedata
    for cp in range(0x80, 0x30000):
        if 0xD800 <= cp <= 0xDFFF:
            continue
        ch = chr(cp)
        case_outs = {str.lower(ch), str.upper(ch), str.casefold(ch)}
        outs = set(case_outs)
        for form in ("NFKC", "NFKD"):
            outs.add(unicodedata.normalize(form, ch))
            outs.add(unicodedata.normalize(form, ch).lower())
        for o in outs:
            if len(o) == 1 and o.isascii() and o.isalnum():
                _CONF.setdefault(o, []).append(ch)
                if o in case_outs:
                    _CONF_CASE.setdefault(o, []).append(ch)
    return _CONF


def confuse(rnd, s, positions=None):
    """Replace 1..3 characters of s by confusables of THE SAME character (or of its other case); code points that map
    by plain case conversion (KELVIN SIGN, LONG S, DOTLESS I ...) are preferred when one applies.
    Returns (new string, n replaced) or (s, 0) if nothing applicable."""
    conf = confusables()

    def pool_of(c, table):
        return table.get(c, []) + table.get(c.lower(), []) + table.get(c.upper(), [])
    rng = list(positions if positions is not None else range(len(s)))
    case_idx = [i for i in rng if pool_of(s[i], _CONF_CASE)]
    idx = [i for i in rng if pool_of(s[i], conf)]
    if not idx:
        return s, 0
    use_case = bool(case_idx) and rnd.random() < 0.6
    cand = case_idx if use_case else idx
    n = min(len(cand), rnd.choice([1, 1, 2, 3]))
    out = list(s)
    for i in rnd.sample(cand, n):
        out[i] = rnd.choice(pool_of(s[i], _CONF_CASE if use_case else conf))
    return "".join(out), n


PATH_FORMS = ("list", "list", "tuple", "iter", "generator", "map")


def path_form(form, path):
    """The same index path handed over in another shape (derive_path iterates its argument; the unchanged code accepts any
    iterable).  A shape the code refuses with TypeError is fine; a DIFFERENT node for the same indexes is not."""
    path = list(path)
    if form == "tuple":
        return tuple(path)
    if form == "iter":
        return iter(path)
    if form == "generator":
        return (i for i in path)
    if form == "map":
        return map(int, path)
    return path


def special_master_seed(rnd, want, tries=4000):
    """Search (with the standard library's HMAC - the search is not the oracle) a 32-byte seed whose BIP32 master key /
    chain code has a given byte at an end: want = ("k_last", 0x01) | ("k_first", 0x00) | ("c_first", 0x00) | ("c_last", 0x01) ...
    Returns the seed or None."""
    import hashlib
    import hmac
    field, val = want
    for _ in range(tries):
        sd = rbytes(rnd, 32)
        I = hmac.new(b"Bitcoin seed", sd, hashlib.sha512).digest()
        b = {"k_last": I[31], "k_first": I[0], "c_first": I[32], "c_last": I[63]}[field]
        if b == val and 0 < int.from_bytes(I[:32], "big") < N:
            return sd
    return None
