"""Glue between oracle values (vpkg.ref) and the repo's objects."""
from .ref import bip32 as rb32, secp


def versions(testnet):
    return (rb32.version_for("prv", testnet, 44), rb32.version_for("pub", testnet, 44))


def xkey_from_case(c):
    """case dict -> ref XKey (private if 'k' present else public from 'K')."""
    pfp = c.get("pfp", b"\x00\x00\x00\x00")
    if c.get("k") is not None:
        return rb32.XKey(c["k"], None, c["c"], c.get("depth", 0), c.get("pindex", 0), pfp)
    return rb32.XKey(None, secp.parse(c["K"]), c["c"], c.get("depth", 0), c.get("pindex", 0), pfp)


_SUBCLASSES = {}


def _subclass(cls):
    if cls not in _SUBCLASSES:
        _SUBCLASSES[cls] = type("Labelled" + cls.__name__, (cls,), {"label": lambda self: "depth %d" % self.depth})
    return _SUBCLASSES[cls]


def mk_node(xk, testnet=False, form="ctor", public=False, purpose=44):
    """Build the repo node for a ref XKey.
    form: 'ctor' (constructor, 32-byte key) | 'str' | 'bytes' | 'stream' (parsed, 33-byte key)"""
    from btc_hd_wallet.bip32 import PrvKeyNode, PubKeyNode
    from io import BytesIO
    if public or xk.k is None:
        cls = PubKeyNode
        ver = rb32.version_for("pub", testnet, purpose)
        payload = xk.payload(ver, False)
        keybytes = xk.sec()
    else:
        cls = PrvKeyNode
        ver = rb32.version_for("prv", testnet, purpose)
        payload = xk.payload(ver, True)
        keybytes = rb32.ser256(xk.k)
    if form.startswith("sub-"):
        # a subclass of the caller's own making (the library builds children with self.__class__, so subclassing is a supported
        # use): the same data in a class whose type() is not the library's
        cls = _subclass(cls)
        form = form[4:]
    if form == "ctor":
        return cls(key=keybytes, chain_code=xk.c, index=xk.index, depth=xk.depth,
                   testnet=testnet, parent_fingerprint=xk.pfp)
    if form == "str":
        from .ref import base58
        return cls.parse(base58.encode_check(payload), testnet=testnet)
    if form == "bytes":
        return cls.parse(payload, testnet=testnet)
    if form == "stream":
        return cls.parse(BytesIO(payload), testnet=testnet)
    if form == "stream-offset":
        st = BytesIO(b"HEADER\x00\x01" + payload + b"\xff" * 5)      # record behind a header, stream positioned on it
        st.seek(8)
        return cls.parse(st, testnet=testnet)
    if form == "stream-second":
        is_prv = not (public or xk.k is None)
        first = rb32.XKey(xk.k if is_prv else None, xk.K, xk.c[::-1], 7, 11, b"\x09\x08\x07\x06")
        st = BytesIO(first.payload(ver, is_prv) + payload)
        cls.parse(st, testnet=testnet)                                  # first record of the stream
        return cls.parse(st, testnet=testnet)                           # ... the second one is ours
    raise ValueError(form)


def node_obs(node):
    """Observable fields of a repo node (no derived strings)."""
    return {"key": bytes(node.key), "c": bytes(node.chain_code), "depth": node.depth,
            "index": node.index, "pfp": bytes(node.parent_fingerprint), "testnet": node.testnet,
            "cls": type(node).__name__}


def compare_node(node, ref, testnet, want_private):
    """Field-by-field comparison of a repo node against a ref XKey.
    Returns list of (field, expected, observed) mismatches."""
    bad = []
    o = node_obs(node)
    if want_private:
        kb = o["key"]
        if len(kb) == 33 and kb[0] == 0:
            kb = kb[1:]
        if len(kb) != 32:
            bad.append(("key_len", 32, len(o["key"])))
        if int.from_bytes(kb, "big") != ref.k:
            bad.append(("k", ref.k, int.from_bytes(kb, "big")))
    else:
        if o["key"] != ref.sec():
            bad.append(("K", ref.sec(), o["key"]))
    if o["c"] != ref.c:
        bad.append(("chain_code", ref.c, o["c"]))
    if o["depth"] != ref.depth:
        bad.append(("depth", ref.depth, o["depth"]))
    if o["index"] != ref.index:
        bad.append(("index", ref.index, o["index"]))
    if o["pfp"] != ref.pfp:
        bad.append(("parent_fingerprint", ref.pfp, o["pfp"]))
    if bool(o["testnet"]) != bool(testnet):
        bad.append(("testnet", testnet, o["testnet"]))
    return bad


def compare_strings(node, ref, testnet, want_private):
    """Printed extended keys of a node vs the reference serialisation."""
    bad = []
    vprv, vpub = versions(testnet)
    try:
        s = node.extended_public_key()
        e = ref.xpub(vpub)
        if s != e:
            bad.append(("xpub", e, s))
    except Exception as ex:  # noqa
        bad.append(("xpub", ref.xpub(vpub), ex))
    if want_private:
        try:
            s = node.extended_private_key()
            e = ref.xprv(vprv)
            if s != e:
                bad.append(("xprv", e, s))
        except Exception as ex:  # noqa
            bad.append(("xprv", ref.xprv(vprv), ex))
    return bad


def ref_from_node(node):
    """Oracle view of a repo node *as given* (used by probes on internal
    calls: the parent is whatever object the code is using)."""
    kb = bytes(node.key)
    pfp = bytes(node.parent_fingerprint)
    if type(node).__name__ == "PrvKeyNode":
        if len(kb) == 33 and kb[0] == 0:
            kb = kb[1:]
        return rb32.XKey(int.from_bytes(kb, "big"), None, bytes(node.chain_code), node.depth, node.index, pfp)
    return rb32.XKey(None, secp.parse(kb), bytes(node.chain_code), node.depth, node.index, pfp)
