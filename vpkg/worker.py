"""One shard of one check.  Run as: python -m vpkg.worker C01 --tier quick --seed 0 --shard 0 --nshards 8 --out f.json"""
import argparse
import faulthandler
import importlib
import json
import os
import sys
import traceback

from .core import Ctx, Inconclusive, load_repo, backend, unjz


class WorkerDeadline(BaseException):
    pass


def main():
    ap = argparse.ArgumentParser()
    ap.add_argument("prop")
    ap.add_argument("--tier", default="quick")
    ap.add_argument("--seed", type=int, default=0)
    ap.add_argument("--shard", type=int, default=0)
    ap.add_argument("--nshards", type=int, default=1)
    ap.add_argument("--out", required=True)
    ap.add_argument("--replay", default=None)
    a = ap.parse_args()
    faulthandler.enable()
    ctx = Ctx(a.prop, a.tier, a.seed, a.shard, a.nshards)
    status = "ok"
    reach = None
    # The driver's wall-clock watchdog kills a shard that never finishes - and with it everything the shard had already
    # observed.  A little before that, the shard interrupts itself (SIGALRM raises in the main thread, re-armed every 2 s in
    # case a broad `except` in a check swallows it), reports what it has (violations included) and says it did not finish.
    deadline = int(os.environ.get("VP_DEADLINE_S", "0") or 0)
    if deadline > 0:
        import signal

        def _on_alarm(signum, frame):
            signal.alarm(2)
            raise WorkerDeadline("shard reached its own deadline of %ds" % deadline)
        signal.signal(signal.SIGALRM, _on_alarm)
        signal.alarm(deadline)
    try:
        from . import inject as _inj
        _inj.EnvTaint.install()
        if os.environ.get("VP_NO_OSSL_RIPEMD") == "1":
            _inj.no_openssl_ripemd160()
        if os.environ.get("VP_DEBUG_LOGGING") == "1":
            import logging
            logging.getLogger().setLevel(logging.DEBUG)
            logging.getLogger().addHandler(logging.NullHandler())
            logging.lastResort = logging.NullHandler()
        load_repo()
        ctx.extra["backend"] = backend()
        ctx.extra["interpreter_configurations"] = ["optimize=%d hashseed=%s openssl_ripemd160=%s%s" % (
            sys.flags.optimize, os.environ.get("PYTHONHASHSEED", "random"), "no" if os.environ.get("VP_NO_OSSL_RIPEMD") == "1" else "yes" + (" logging=DEBUG" if os.environ.get("VP_DEBUG_LOGGING") == "1" else ""),
            (" env=" + os.environ["VP_EXTRA_ENV"]) if os.environ.get("VP_EXTRA_ENV") else "")]
        from . import inject
        reach = inject.Reach().start()
        mod = importlib.import_module("vpkg.checks." + a.prop.lower())
        ctx.mult = int(getattr(mod, "THOROUGH_MULT", 1))
        if a.replay:
            v = json.load(open(a.replay))
            mod.replay(ctx, v["monitor"], unjz(v["case"]))
        else:
            mod.run(ctx)
    except Inconclusive as e:
        ctx.note_inconclusive(str(e))
    except WorkerDeadline as e:
        ctx.note_inconclusive("%s (unfinished; %d adjudications so far)" % (e, sum(m["reached"] for m in ctx.monitors.values())))
    except BaseException as e:  # harness bug or monitor crash -> inconclusive, never 'held'
        status = "crashed"
        ctx.note_inconclusive("worker crashed: %s: %s\n%s" % (type(e).__name__, e, traceback.format_exc()[-1500:]))
    if deadline > 0:
        import signal
        signal.alarm(0)
        signal.signal(signal.SIGALRM, signal.SIG_IGN)
    if reach is not None:
        try:
            ctx.extra["functions_entered"] = reach.stop()
        except Exception:  # noqa
            pass
    try:
        from . import probes as _pr
        if _pr.CALLBACK_ERRORS:
            ctx.extra["observer_callback_errors_not_propagated"] = list(_pr.CALLBACK_ERRORS)
    except Exception:  # noqa
        pass
    try:
        from . import inject as _inj2
        ctx.extra["environment_variables_looked_up_by_repo_code"] = list(_inj2.EnvTaint.names)
    except Exception:  # noqa
        pass
    res = ctx.result()
    res["status"] = status
    tmp = a.out + ".tmp"
    with open(tmp, "w") as f:
        json.dump(res, f)
    os.replace(tmp, a.out)


if __name__ == "__main__":
    main()
