"""Independent secp256k1 arithmetic for the oracle.

Imports nothing from btc_hd_wallet and nothing from ecdsa.  Jacobian
coordinates, fixed-base 4-bit window table for G, explicit curve-equation
check on every parsed point.
"""

P = 0xFFFFFFFFFFFFFFFFFFFFFFFFFFFFFFFFFFFFFFFFFFFFFFFFFFFFFFFEFFFFFC2F
N = 0xFFFFFFFFFFFFFFFFFFFFFFFFFFFFFFFEBAAEDCE6AF48A03BBFD25E8CD0364141
GX = 0x79BE667EF9DCBBAC55A06295CE870B07029BFCDB2DCE28D959F2815B16F81798
GY = 0x483ADA7726A3C4655DA4FBFC0E1108A8FD17B448A68554199C47D08FFB10D4B8
G = (GX, GY)
INF = None  # affine point at infinity


def on_curve(pt):
    if pt is None:
        return True
    x, y = pt
    return 0 <= x < P and 0 <= y < P and (y * y - (x * x * x + 7)) % P == 0


# ---------------------------------------------------------------- Jacobian
def _jdouble(X1, Y1, Z1):
    if Y1 == 0 or Z1 == 0:
        return (0, 1, 0)
    S = (4 * X1 * Y1 * Y1) % P
    M = (3 * X1 * X1) % P            # a = 0
    X3 = (M * M - 2 * S) % P
    Y3 = (M * (S - X3) - 8 * Y1 * Y1 * Y1 * Y1) % P
    Z3 = (2 * Y1 * Z1) % P
    return (X3, Y3, Z3)


def _jadd(p1, p2):
    X1, Y1, Z1 = p1
    X2, Y2, Z2 = p2
    if Z1 == 0:
        return p2
    if Z2 == 0:
        return p1
    Z1Z1 = (Z1 * Z1) % P
    Z2Z2 = (Z2 * Z2) % P
    U1 = (X1 * Z2Z2) % P
    U2 = (X2 * Z1Z1) % P
    S1 = (Y1 * Z2 * Z2Z2) % P
    S2 = (Y2 * Z1 * Z1Z1) % P
    if U1 == U2:
        if S1 != S2:
            return (0, 1, 0)
        return _jdouble(X1, Y1, Z1)
    H = (U2 - U1) % P
    R = (S2 - S1) % P
    HH = (H * H) % P
    HHH = (H * HH) % P
    V = (U1 * HH) % P
    X3 = (R * R - HHH - 2 * V) % P
    Y3 = (R * (V - X3) - S1 * HHH) % P
    Z3 = (H * Z1 * Z2) % P
    return (X3, Y3, Z3)


def _to_affine(j):
    X, Y, Z = j
    if Z == 0:
        return None
    zi = pow(Z, -1, P)
    zi2 = (zi * zi) % P
    return ((X * zi2) % P, (Y * zi2 * zi) % P)


def _to_jac(pt):
    if pt is None:
        return (0, 1, 0)
    return (pt[0], pt[1], 1)


def add(p1, p2):
    """Affine point addition (None = infinity)."""
    return _to_affine(_jadd(_to_jac(p1), _to_jac(p2)))


def neg(pt):
    if pt is None:
        return None
    return (pt[0], (-pt[1]) % P)


def mul(k, pt):
    """k * pt for any integer k (reduced mod N), generic double-and-add."""
    k %= N
    acc = (0, 1, 0)
    if pt is None or k == 0:
        return None
    base = _to_jac(pt)
    for bit in bin(k)[2:]:
        acc = _jdouble(*acc)
        if bit == "1":
            acc = _jadd(acc, base)
    return _to_affine(acc)


# fixed-base table: _GT[w][d] = d * 16^w * G  (Jacobian), w = 0..63, d = 0..15
_GT = None


def _build_table():
    global _GT
    tbl = []
    base = _to_jac(G)
    for _w in range(64):
        row = [(0, 1, 0)]
        cur = (0, 1, 0)
        for _d in range(1, 16):
            cur = _jadd(cur, base)
            # normalise to affine -> cheaper mixed adds later and no growth
            a = _to_affine(cur)
            row.append((a[0], a[1], 1))
            cur = row[-1]
        tbl.append(row)
        for _ in range(4):
            base = _jdouble(*base)
        ab = _to_affine(base)
        base = (ab[0], ab[1], 1)
    _GT = tbl


def gmul(k):
    """k * G (k reduced mod N) using the fixed-base table."""
    if _GT is None:
        _build_table()
    k %= N
    acc = (0, 1, 0)
    w = 0
    while k:
        d = k & 15
        if d:
            acc = _jadd(acc, _GT[w][d])
        k >>= 4
        w += 1
    return _to_affine(acc)


# ---------------------------------------------------------------- SEC codec
def ser(pt, compressed=True):
    if pt is None:
        raise ValueError("cannot serialise infinity")
    x, y = pt
    if compressed:
        return bytes([2 + (y & 1)]) + x.to_bytes(32, "big")
    return b"\x04" + x.to_bytes(32, "big") + y.to_bytes(32, "big")


def lift_x(x, odd):
    """Return the point with given x and y parity, or None when x^3+7 is a
    non-residue or x >= p."""
    if not 0 <= x < P:
        return None
    rhs = (pow(x, 3, P) + 7) % P
    y = pow(rhs, (P + 1) // 4, P)
    if (y * y) % P != rhs:
        return None
    if (y & 1) != (1 if odd else 0):
        y = P - y
    return (x, y)


class BadPoint(ValueError):
    pass


def parse(b):
    """Strict SEC parser: 02/03 || x  or 04 || x || y, point must be on curve."""
    if len(b) == 33 and b[0] in (2, 3):
        pt = lift_x(int.from_bytes(b[1:], "big"), b[0] == 3)
        if pt is None:
            raise BadPoint("not on curve")
        return pt
    if len(b) == 65 and b[0] == 4:
        pt = (int.from_bytes(b[1:33], "big"), int.from_bytes(b[33:], "big"))
        if not on_curve(pt):
            raise BadPoint("not on curve")
        return pt
    raise BadPoint("bad encoding")


def classify_sec(b):
    """Classify an arbitrary byte string as a point encoding.

    Returns ('point', pt) when the bytes denote a curve point under any
    encoding ecdsa is documented to accept (compressed, uncompressed, hybrid
    06/07 with consistent parity, raw 64-byte x||y), else ('invalid', why).
    """
    try:
        return ("point", parse(b))
    except BadPoint:
        pass
    if len(b) == 65 and b[0] in (6, 7):
        pt = (int.from_bytes(b[1:33], "big"), int.from_bytes(b[33:], "big"))
        if on_curve(pt) and (pt[1] & 1) == (b[0] & 1):
            return ("point", pt)
        return ("invalid", "hybrid inconsistent or off curve")
    if len(b) == 64:
        pt = (int.from_bytes(b[:32], "big"), int.from_bytes(b[32:], "big"))
        if on_curve(pt):
            return ("point", pt)
        return ("invalid", "raw off curve")
    return ("invalid", "no encoding")


def valid_scalar(k):
    return isinstance(k, int) and 1 <= k < N
