"""Strict reference codec for scripts and CompactSize varints."""


class ScriptError(ValueError):
    pass


def enc_varint(i):
    if not isinstance(i, int) or i < 0 or i >= 1 << 64:
        raise ScriptError("varint range")
    if i < 0xFD:
        return bytes([i])
    if i <= 0xFFFF:
        return b"\xfd" + i.to_bytes(2, "little")
    if i <= 0xFFFFFFFF:
        return b"\xfe" + i.to_bytes(4, "little")
    return b"\xff" + i.to_bytes(8, "little")


def dec_varint(buf, pos=0):
    """Strict on length (every byte must be present); returns (value, newpos).
    Non-minimal encodings are *accepted* (the property only demands that the
    encoder emits the shortest form)."""
    if pos >= len(buf):
        raise ScriptError("eof")
    t = buf[pos]
    w = {0xFD: 2, 0xFE: 4, 0xFF: 8}.get(t, 0)
    if w == 0:
        return t, pos + 1
    if pos + 1 + w > len(buf):
        raise ScriptError("truncated varint")
    return int.from_bytes(buf[pos + 1: pos + 1 + w], "little"), pos + 1 + w


def push_prefix(n):
    if 1 <= n <= 75:
        return bytes([n])
    if 76 <= n <= 255:
        return b"\x4c" + bytes([n])
    if 256 <= n <= 520:
        return b"\x4d" + n.to_bytes(2, "little")
    raise ScriptError("element length %d" % n)


def raw_serialize(cmds):
    out = b""
    for c in cmds:
        if isinstance(c, int):
            out += bytes([c])
        else:
            out += push_prefix(len(c)) + bytes(c)
    return out


def serialize(cmds):
    raw = raw_serialize(cmds)
    return enc_varint(len(raw)) + raw


def parse(buf):
    """Strict parser of varint-prefixed script.  Returns (cmds, consumed).
    Fails whenever any declared length runs past the available bytes or past
    the declared script length."""
    length, pos = dec_varint(buf, 0)
    end = pos + length
    if end > len(buf):
        raise ScriptError("script body truncated")
    cmds = []
    while pos < end:
        op = buf[pos]
        pos += 1
        if 1 <= op <= 75:
            n = op
        elif op == 76:
            if pos + 1 > end:
                raise ScriptError("pushdata1 length truncated")
            n = buf[pos]
            pos += 1
        elif op == 77:
            if pos + 2 > end:
                raise ScriptError("pushdata2 length truncated")
            n = int.from_bytes(buf[pos:pos + 2], "little")
            pos += 2
        else:
            cmds.append(op)
            continue
        if pos + n > end:
            raise ScriptError("push runs past end")
        cmds.append(bytes(buf[pos:pos + n]))
        pos += n
    return cmds, pos
