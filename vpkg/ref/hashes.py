"""Hash constructions for the oracle, written out from the RFCs over
hashlib's SHA-256/SHA-512 primitives; RIPEMD-160 from the original paper
(and cross-checked against OpenSSL's on every call when available)."""
import hashlib


def sha256(b):
    return hashlib.sha256(b).digest()


def hash256(b):
    return sha256(sha256(b))


# ------------------------------------------------------------------ HMAC
_IPAD = bytes(x ^ 0x36 for x in range(256))
_OPAD = bytes(x ^ 0x5C for x in range(256))


def _hmac512_keyed(key):
    """RFC 2104: returns (inner, outer) sha512 objects primed with the key."""
    if len(key) > 128:
        key = hashlib.sha512(key).digest()
    key = key + b"\x00" * (128 - len(key))
    inner = hashlib.sha512(key.translate(_IPAD))
    outer = hashlib.sha512(key.translate(_OPAD))
    return inner, outer


def hmac_sha512(key, msg):
    inner, outer = _hmac512_keyed(key)
    i = inner.copy()
    i.update(msg)
    o = outer.copy()
    o.update(i.digest())
    return o.digest()


def pbkdf2_hmac_sha512(password, salt, rounds, dklen=64):
    """RFC 8018 PBKDF2 with HMAC-SHA512."""
    inner, outer = _hmac512_keyed(password)

    def prf(m):
        i = inner.copy()
        i.update(m)
        o = outer.copy()
        o.update(i.digest())
        return o.digest()

    out = b""
    block = 1
    while len(out) < dklen:
        u = prf(salt + block.to_bytes(4, "big"))
        t = int.from_bytes(u, "big")
        for _ in range(rounds - 1):
            u = prf(u)
            t ^= int.from_bytes(u, "big")
        out += t.to_bytes(64, "big")
        block += 1
    return out[:dklen]


# ------------------------------------------------------------------ RIPEMD-160
# From Dobbertin, Bosselaers, Preneel, "RIPEMD-160: a strengthened version of
# RIPEMD" (1996).  Written round-by-round with per-round function objects and
# selector/shift tables split per round, i.e. a different structure from the
# single 80-entry tables used in the bundled ripemd.py.
def _f1(x, y, z): return x ^ y ^ z
def _f2(x, y, z): return (x & y) | ((~x) & z)
def _f3(x, y, z): return (x | (~y)) ^ z
def _f4(x, y, z): return (x & z) | (y & (~z))
def _f5(x, y, z): return x ^ (y | (~z))


_LEFT = [
    (_f1, 0x00000000,
     [0, 1, 2, 3, 4, 5, 6, 7, 8, 9, 10, 11, 12, 13, 14, 15],
     [11, 14, 15, 12, 5, 8, 7, 9, 11, 13, 14, 15, 6, 7, 9, 8]),
    (_f2, 0x5A827999,
     [7, 4, 13, 1, 10, 6, 15, 3, 12, 0, 9, 5, 2, 14, 11, 8],
     [7, 6, 8, 13, 11, 9, 7, 15, 7, 12, 15, 9, 11, 7, 13, 12]),
    (_f3, 0x6ED9EBA1,
     [3, 10, 14, 4, 9, 15, 8, 1, 2, 7, 0, 6, 13, 11, 5, 12],
     [11, 13, 6, 7, 14, 9, 13, 15, 14, 8, 13, 6, 5, 12, 7, 5]),
    (_f4, 0x8F1BBCDC,
     [1, 9, 11, 10, 0, 8, 12, 4, 13, 3, 7, 15, 14, 5, 6, 2],
     [11, 12, 14, 15, 14, 15, 9, 8, 9, 14, 5, 6, 8, 6, 5, 12]),
    (_f5, 0xA953FD4E,
     [4, 0, 5, 9, 7, 12, 2, 10, 14, 1, 3, 8, 11, 6, 15, 13],
     [9, 15, 5, 11, 6, 8, 13, 12, 5, 12, 13, 14, 11, 8, 5, 6]),
]
_RIGHT = [
    (_f5, 0x50A28BE6,
     [5, 14, 7, 0, 9, 2, 11, 4, 13, 6, 15, 8, 1, 10, 3, 12],
     [8, 9, 9, 11, 13, 15, 15, 5, 7, 7, 8, 11, 14, 14, 12, 6]),
    (_f4, 0x5C4DD124,
     [6, 11, 3, 7, 0, 13, 5, 10, 14, 15, 8, 12, 4, 9, 1, 2],
     [9, 13, 15, 7, 12, 8, 9, 11, 7, 7, 12, 7, 6, 15, 13, 11]),
    (_f3, 0x6D703EF3,
     [15, 5, 1, 3, 7, 14, 6, 9, 11, 8, 12, 2, 10, 0, 4, 13],
     [9, 7, 15, 11, 8, 6, 6, 14, 12, 13, 5, 14, 13, 13, 7, 5]),
    (_f2, 0x7A6D76E9,
     [8, 6, 4, 1, 3, 11, 15, 0, 5, 12, 2, 13, 9, 7, 10, 14],
     [15, 5, 8, 11, 14, 14, 6, 14, 6, 9, 12, 9, 12, 5, 15, 8]),
    (_f1, 0x00000000,
     [12, 15, 10, 4, 1, 5, 8, 7, 6, 2, 13, 14, 0, 3, 9, 11],
     [8, 5, 12, 9, 12, 5, 14, 6, 8, 13, 6, 5, 15, 13, 11, 11]),
]
_M32 = 0xFFFFFFFF


def _rol32(x, s):
    x &= _M32
    return ((x << s) | (x >> (32 - s))) & _M32


def _line(state, X, rounds):
    a, b, c, d, e = state
    for f, k, sel, sh in rounds:
        for j in range(16):
            t = (_rol32((a + (f(b, c, d) & _M32) + X[sel[j]] + k) & _M32, sh[j]) + e) & _M32
            a, e, d, c, b = e, d, _rol32(c, 10), b, t
    return a, b, c, d, e


def ripemd160_own(msg):
    h = [0x67452301, 0xEFCDAB89, 0x98BADCFE, 0x10325476, 0xC3D2E1F0]
    ml = len(msg)
    # MD-style padding: 0x80, zeros to 56 mod 64, 64-bit little-endian bit length
    padded = msg + b"\x80"
    while len(padded) % 64 != 56:
        padded += b"\x00"
    padded += ((ml * 8) & 0xFFFFFFFFFFFFFFFF).to_bytes(8, "little")
    for off in range(0, len(padded), 64):
        X = [int.from_bytes(padded[off + 4 * i: off + 4 * i + 4], "little")
             for i in range(16)]
        al, bl, cl, dl, el = _line(tuple(h), X, _LEFT)
        ar, br, cr, dr, er = _line(tuple(h), X, _RIGHT)
        t = (h[1] + cl + dr) & _M32
        h[1] = (h[2] + dl + er) & _M32
        h[2] = (h[3] + el + ar) & _M32
        h[3] = (h[4] + al + br) & _M32
        h[4] = (h[0] + bl + cr) & _M32
        h[0] = t
    return b"".join(x.to_bytes(4, "little") for x in h)


try:
    hashlib.new("ripemd160", b"")
    HAVE_OPENSSL_RIPEMD = True
except Exception:  # pragma: no cover
    HAVE_OPENSSL_RIPEMD = False


class OracleDisagreement(Exception):
    """The oracle's two RIPEMD-160 implementations disagree -> inconclusive."""


def ripemd160(msg, cross=True):
    own = ripemd160_own(msg)
    if cross and HAVE_OPENSSL_RIPEMD:
        ossl = hashlib.new("ripemd160", msg).digest()
        if ossl != own:
            raise OracleDisagreement("ripemd160 own != openssl for len %d" % len(msg))
    return own


def ripemd160_fast(msg):
    """OpenSSL when present (validated against own at self-test), else own."""
    if HAVE_OPENSSL_RIPEMD:
        return hashlib.new("ripemd160", msg).digest()
    return ripemd160_own(msg)


def hash160(b):
    return ripemd160_fast(sha256(b))


def ripemd160_rare_events(msg):
    """Which RARE 32-bit intermediate words occur while RIPEMD-160 (own implementation) compresses `msg`:
    't=ffffffff' / 't=0'  - the word that is rotated in some step, (a + f(b,c,d) + X + K) mod 2^32, is all ones / zero;
    'c=ffffffff' / 'c=0'  - the word given to the fixed rotation by 10 is all ones / zero.
    Used to certify the committed corpus of inputs that drive the bundled pure-Python RIPEMD-160 through these corners (each has
    probability ~160 * 2^-32 per block, i.e. random testing meets one per ~3*10^7 hashes)."""
    events = set()
    h = [0x67452301, 0xEFCDAB89, 0x98BADCFE, 0x10325476, 0xC3D2E1F0]
    ml = len(msg)
    padded = msg + b"\x80"
    while len(padded) % 64 != 56:
        padded += b"\x00"
    padded += ((ml * 8) & 0xFFFFFFFFFFFFFFFF).to_bytes(8, "little")
    for off in range(0, len(padded), 64):
        X = [int.from_bytes(padded[off + 4 * i: off + 4 * i + 4], "little") for i in range(16)]
        res = []
        for rounds in (_LEFT, _RIGHT):
            a, b, c, d, e = h
            for f, k, sel, sh in rounds:
                for j in range(16):
                    t0 = (a + (f(b, c, d) & _M32) + X[sel[j]] + k) & _M32
                    if t0 == _M32:
                        events.add("t=ffffffff")
                    if t0 == 0:
                        events.add("t=0")
                    if c == _M32:
                        events.add("c=ffffffff")
                    if c == 0:
                        events.add("c=0")
                    t = (_rol32(t0, sh[j]) + e) & _M32
                    a, e, d, c, b = e, d, _rol32(c, 10), b, t
            res.append((a, b, c, d, e))
        (al, bl, cl, dl, el), (ar, br, cr, dr, er) = res
        t = (h[1] + cl + dr) & _M32
        h[1] = (h[2] + dl + er) & _M32
        h[2] = (h[3] + el + ar) & _M32
        h[3] = (h[4] + al + br) & _M32
        h[4] = (h[0] + bl + cr) & _M32
        h[0] = t
    return events, b"".join(x.to_bytes(4, "little") for x in h)
