"""Reference paper-wallet model: what generate()/wasabi_json() must contain,
recomputed from the master key by the reference model only."""
from . import bip32, bip85, addr

H = bip32.HARD
PURPOSES = (44, 49, 84)
ADDR_KIND = {44: "p2pkh", 49: "p2sh_p2wpkh", 84: "p2wpkh"}


def account_path(purpose, testnet, account):
    return [purpose + H, (1 if testnet else 0) + H, account + H]


def path_str(indexes):
    return "/".join(["m"] + [("%d'" % (i - H)) if i >= H else str(i) for i in indexes])


def group(master, purpose, testnet, account, start, end, with_private=True):
    ap = account_path(purpose, testnet, account)
    acct = bip32.derive(master, ap)
    net = "test" if testnet else "main"
    keys = {
        "path": path_str(ap),
        "pub": acct.xpub(bip32.SLIP132[("pub", net, purpose)]),
        "prv": acct.xprv(bip32.SLIP132[("prv", net, purpose)]) if with_private else None,
    }
    chain = bip32.ckd_priv(acct, 0)
    rows = []
    for i in range(start, end):
        n = bip32.ckd_priv(chain, i)
        sec = n.sec()
        rows.append([path_str(ap + [0, i]), addr.KINDS[ADDR_KIND[purpose]](sec, testnet), sec.hex(),
                     addr.wif(n.k, True, testnet) if with_private else None])
    return {"account_extended_keys": keys, "groups": rows}


def bip85_block(master):
    return {
        "m/83696968'/39'/0'/24'/0'": bip85.mnemonic(master, 24, 0),
        "m/83696968'/39'/0'/18'/0'": bip85.mnemonic(master, 18, 0),
        "m/83696968'/39'/0'/12'/0'": bip85.mnemonic(master, 12, 0),
        "m/83696968'/2'/0'": bip85.wif(master, 0),
        "m/83696968'/2'/1'": bip85.wif(master, 1),
        "m/83696968'/2'/2'": bip85.wif(master, 2),
        "m/83696968'/32'/0'": bip85.xprv(master, 0),
        "m/83696968'/32'/1'": bip85.xprv(master, 1),
        "m/83696968'/32'/2'": bip85.xprv(master, 2),
    }


def generate(master, testnet, account=0, start=0, end=20, mnemonic=None, password=None, with_bip85=True):
    out = {"MASTER": {"mnemonic": mnemonic, "password": password}}
    if with_bip85:
        out["BIP85"] = bip85_block(master)
    for p in PURPOSES:
        out["BIP%d" % p] = group(master, p, testnet, account, start, end)
    return out


def paranoia(data):
    """Independent whitelist filter: what paranoia mode may contain."""
    out = {}
    for k in ("BIP44", "BIP49", "BIP84"):
        if k in data:
            out[k] = {"account_extended_keys": {"path": data[k]["account_extended_keys"]["path"],
                                                "pub": data[k]["account_extended_keys"]["pub"]},
                      "groups": [row[:3] for row in data[k]["groups"]]}
    return out


def wasabi(master, testnet):
    node = bip32.derive(master, [84 + H, H, H])
    return {
        "ExtPubKey": node.xpub(bip32.SLIP132[("pub", "test" if testnet else "main", 44)]),
        "MasterFingerprint": master.fingerprint().hex().upper(),
    }


def diff(exp, got, path=""):
    """First few structural differences between two JSON-like values."""
    out = []
    if type(exp) != type(got) and not (isinstance(exp, (list, tuple)) and isinstance(got, (list, tuple))):
        return [(path or "/", exp, got)]
    if isinstance(exp, dict):
        for k in exp:
            if k not in got:
                out.append((path + "/" + str(k), exp[k], "<missing>"))
            else:
                out += diff(exp[k], got[k], path + "/" + str(k))
        for k in got:
            if k not in exp:
                out.append((path + "/" + str(k), "<absent>", got[k]))
    elif isinstance(exp, (list, tuple)):
        if len(exp) != len(got):
            out.append((path + "/#len", len(exp), len(got)))
        for i, (a, b) in enumerate(zip(exp, got)):
            out += diff(a, b, "%s/%d" % (path, i))
            if len(out) > 6:
                break
    elif exp != got:
        out.append((path or "/", exp, got))
    return out[:8]
