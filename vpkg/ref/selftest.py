"""Oracle self-test: published vectors + algebraic identities.
A failure makes every check INCONCLUSIVE (the oracle may not adjudicate)."""
import random
import subprocess
import shutil

from . import secp, hashes, base58, bech32, bip32, bip39, bip85, script, path, addr, vectors


class SelfTestFailure(Exception):
    pass


def _req(cond, what):
    if not cond:
        raise SelfTestFailure(what)


def _parse_chain(s):
    out = []
    for comp in s.split("/")[1:]:
        if comp.endswith("'"):
            out.append(int(comp[:-1]) + bip32.HARD)
        else:
            out.append(int(comp))
    return out


def run(full=False, seed=12345):
    n = 0
    rnd = random.Random(seed)
    # --- curve identities
    _req(secp.on_curve(secp.G), "G on curve")
    _req(secp.mul(secp.N, secp.G) is None, "nG = inf")
    _req(secp.gmul(secp.N - 1) == secp.neg(secp.G), "(n-1)G = -G")
    _req(secp.gmul(1) == secp.G and secp.gmul(2) == secp.add(secp.G, secp.G), "1G,2G")
    for _ in range(60 if not full else 300):
        a = rnd.randrange(1, secp.N)
        b = rnd.randrange(1, secp.N)
        A, B = secp.gmul(a), secp.gmul(b)
        _req(secp.on_curve(A), "aG on curve")
        _req(secp.add(A, B) == secp.gmul(a + b), "(a+b)G")
        _req(secp.mul(a, secp.G) == A, "generic mul == table mul")
        _req(secp.add(A, secp.neg(A)) is None, "A + -A")
        _req(secp.parse(secp.ser(A, True)) == A and secp.parse(secp.ser(A, False)) == A, "sec roundtrip")
        n += 5
    # --- ripemd
    for msg, hx in vectors.RIPEMD:
        _req(hashes.ripemd160_own(msg).hex() == hx, "ripemd vector")
        n += 1
    for ln in list(range(0, 130)) + [183, 184, 191, 192, 247, 248, 1000]:
        m = bytes(rnd.randrange(256) for _ in range(ln))
        hashes.ripemd160(m, cross=True)  # raises OracleDisagreement
        n += 1
    # --- HMAC / PBKDF2 against RFC 4231 test case 2 and a cross-structure check
    _req(hashes.hmac_sha512(b"Jefe", b"what do ya want for nothing?").hex() ==
         "164b7a7bfcf819e2e395fbe73b56e0a387bd64222e831fd610270cd7ea250554"
         "9758bf75c05a994a6d034f65f8f0e6fdcaeab1a34d4a6b4b636e070a38bce737", "rfc4231 tc2")
    _req(hashes.hmac_sha512(b"\xaa" * 131, b"Test Using Larger Than Block-Size Key - Hash Key First").hex() ==
         "80b24263c7c1a3ebb71493c1dd7be8b49b46d1f41b4aeec1121b013783f8f352"
         "6b56d037e05f2598bd0fd2215d6a1e5295e64f73f63f0aec8b915a985d786598", "rfc4231 tc6")
    n += 2
    # --- BIP39 vectors (entropy -> mnemonic -> seed(TREZOR) -> xprv)
    vecs = vectors.BIP39 if full else vectors.BIP39[::3]
    for ent, mn, sd, xprv in vecs:
        e = bytes.fromhex(ent)
        _req(bip39.mnemonic(e) == mn, "bip39 encode")
        de, ok = bip39.decode(mn.split(" "))
        _req(ok and de == e, "bip39 decode")
        s = bip39.seed(mn, "TREZOR")
        _req(s.hex() == sd, "bip39 seed")
        _req(bip32.master(s).xprv(0x0488ADE4) == xprv, "bip39 xprv")
        n += 4
    # --- BIP32 vectors
    for _n, seedhex, chains in vectors.BIP32:
        m = bip32.master(bytes.fromhex(seedhex))
        for chain, xpub, xprv in chains:
            node = bip32.derive(m, _parse_chain(chain))
            _req(node.xprv(0x0488ADE4) == xprv, "bip32 xprv %s" % chain)
            _req(node.xpub(0x0488B21E) == xpub, "bip32 xpub %s" % chain)
            v, xk, priv = bip32.parse_xkey(xprv)
            _req(priv and xk.k == node.k and xk.c == node.c and xk.pfp == node.pfp, "bip32 parse")
            # public derivation agrees where last step is normal
            n += 3
        # CKDpub == neuter(CKDpriv) along the normal suffix
        for chain, xpub, xprv in chains:
            idx = _parse_chain(chain)
            if idx and idx[-1] < bip32.HARD:
                par = bip32.derive(m, idx[:-1])
                ch = bip32.ckd_pub(par.neuter(), idx[-1])
                _req(ch.xpub(0x0488B21E) == xpub, "ckdpub %s" % chain)
                n += 1
    # --- SLIP-132 spelled prefixes
    for (typ, net, purpose), ver in bip32.SLIP132.items():
        for _ in range(3):
            xk = bip32.XKey(rnd.randrange(1, secp.N), None, bytes(rnd.randrange(256) for _ in range(32)),
                            rnd.randrange(0, 256), rnd.randrange(0, 1 << 32), bytes(rnd.randrange(256) for _ in range(4)))
            s = xk.xprv(ver) if typ == "prv" else xk.xpub(ver)
            _req(len(s) == 111 and s.startswith(bip32.spelled_prefix(typ, net, purpose)), "slip132 spelled prefix")
            n += 1
    # --- BIP85
    _v, m85, _p = bip32.parse_xkey(vectors.BIP85_XPRV)
    H = bip32.HARD
    for pth, hx in vectors.BIP85_ENTROPY:
        _req(bip85.entropy(m85, [i + H for i in pth]).hex() == hx, "bip85 entropy")
    for w, mn in vectors.BIP85_MNEMONIC.items():
        _req(bip85.mnemonic(m85, w, 0) == mn, "bip85 mnemonic %d" % w)
    _req(bip85.wif(m85, 0) == vectors.BIP85_WIF0, "bip85 wif")
    _req(bip85.xprv(m85, 0) == vectors.BIP85_XPRV0, "bip85 xprv")
    for nb, i, hx in vectors.BIP85_HEX:
        _req(bip85.hex_(m85, nb, i) == hx, "bip85 hex")
    for ln, i, pw in vectors.BIP85_PWD:
        _req(bip85.pwd(m85, ln, i) == pw, "bip85 pwd")
    n += 17
    # --- base58
    for _ in range(200):
        ln = rnd.randrange(1, 60)
        z = rnd.randrange(0, ln + 1)
        b = b"\x00" * z + bytes(rnd.randrange(256) for _ in range(ln - z))
        s = base58.encode(b)
        _req(base58.decode(s) == b, "b58 roundtrip")
        _req(int.from_bytes(b, "big") == _b58_int(s), "b58 value")
        _req(base58.classify_check(base58.encode_check(b)) == ("valid", b), "b58check")
        n += 3
    # the long-input route (chunked big-integer arithmetic) against the byte-wise algorithm on every length up to 300
    for ln in range(0, 301):
        for z in (0, 1, 4):
            if z > ln:
                continue
            b = b"\x00" * z + bytes(rnd.randrange(256) for _ in range(ln - z))
            s = base58.encode(b)                   # (byte-wise: ln <= LONG)
            _req(base58._encode_long(b) == s, "b58 long-route encode")
            _req(base58._decode_long(s) == b, "b58 long-route decode")
            n += 2
    _req(base58.encode_check(bytes.fromhex("00" + "f54a5851e9372b87810a8e60cdd2e7cfd80b6e31")) ==
         "1PMycacnJaSqwwJqjawXBErnLsZ7RkXUAs", "known p2pkh")
    # --- bech32
    for s in vectors.BECH32_VALID:
        d = bech32.bech_decode(s)
        _req(d is not None and d[2] == bech32.BECH32_CONST, "bech32 valid %s" % s)
    for s in vectors.BECH32M_VALID:
        d = bech32.bech_decode(s)
        _req(d is not None and d[2] == bech32.BECH32M_CONST, "bech32m valid %s" % s)
    for a, spk in vectors.SEGWIT_VALID:
        r = bech32.segwit_decode_any(a)
        _req(r is not None, "segwit valid %s" % a)
        hrp, ver, prog = r
        spkb = bytes([ver + 0x50 if ver else 0, len(prog)]) + prog
        _req(spkb.hex() == spk, "segwit spk %s" % a)
        _req(bech32.segwit_encode(hrp, ver, prog) == a.lower(), "segwit reencode")
        n += 3
    for a in vectors.SEGWIT_INVALID:
        _req(bech32.segwit_decode("bc", a) is None and bech32.segwit_decode("tb", a) is None,
             "segwit invalid %s" % a)
        n += 1
    # the BIP's five 30-bit constants are {1,2,4,8,16} * (x^6 mod g) in GF(32)
    bip_gen = [0x3b6a57b2, 0x26508e6d, 0x1ea119fa, 0x3d4233dd, 0x2a1462b3]
    for i in range(5):
        packed = 0
        for cf in bech32._GEN:
            packed = (packed << 5) | bech32._MUL[1 << i][cf]
        _req(packed == bip_gen[i], "GF(32) generator multiple %d" % i)
        n += 1
    # --- script
    for ln in (1, 75, 76, 255, 256, 520):
        s = script.serialize([b"\x07" * ln, 0xAC])
        c, used = script.parse(s)
        _req(c == [b"\x07" * ln, 0xAC] and used == len(s), "script roundtrip")
        for cut in range(len(s)):
            try:
                script.parse(s[:cut])
                _req(False, "script prefix accepted")
            except script.ScriptError:
                pass
        n += 1
    # --- path
    _req(path.parse_strict("m/44'/0h/1/2147483647'")[1] == [44 + H, H, 1, 2 * H - 1], "path")
    for bad in ("", "x/1", "m//1", "m/-1", "m/2147483648'", "m/4294967296", "m/1.5", "m/0x10", "m/'", "m/5''"):
        _req(path.classify(bad)[0] == "malformed", "path malformed %r" % bad)
    # --- NFKD own vs unicodedata on a sample
    for s in ("ÅÅﬁｶﾞ㍍한글가가ééq̣̇\U0001d400　", "ábć"):
        _req(bip39.nfkd_own(s) == bip39.nfkd(s), "nfkd own")
    # --- address known answers: BIP84 test vector first address
    m = bip32.master(bip39.seed("abandon abandon abandon abandon abandon abandon abandon abandon abandon abandon abandon about", ""))
    n84 = bip32.derive(m, [84 + H, H, H, 0, 0])
    _req(addr.p2wpkh(n84.sec(), False) == "bc1qcr8te4kr609gcawutmrza0j4xv80jy8z306fyu", "bip84 addr")
    _req(addr.wif(n84.k) == "KyZpNDKnfs94vbrwhJneDi77V6jF64PWPF8x5cdJb8ifgg2DUc9d", "bip84 wif")
    n49 = bip32.derive(bip32.master(bip39.seed("abandon abandon abandon abandon abandon abandon abandon abandon abandon abandon abandon about", "")), [49 + H, H + 1, H, 0, 0])
    _req(addr.p2sh_p2wpkh(n49.sec(), True) == "2Mww8dCYPUpKHofjgcXcBCEGmniw9CoaiD2", "bip49 addr")
    n44 = bip32.derive(m, [44 + H, H, H, 0, 0])
    _req(addr.p2pkh(n44.sec(), False) == "1LqBGSKuX5yYUonjxT5qGfpUsXKYYWeabA", "bip44 addr")
    n += 4
    # --- optional third opinion: openssl CLI
    if full and shutil.which("openssl"):
        try:
            for _ in range(5):
                k = rnd.randrange(1, secp.N)
                der = (bytes.fromhex("302e0201010420") + k.to_bytes(32, "big")
                       + bytes.fromhex("a00706052b8104000a"))
                p = subprocess.run(["openssl", "ec", "-inform", "DER", "-pubout", "-outform", "DER", "-conv_form", "compressed"],
                                   input=der, capture_output=True, timeout=20)
                if p.returncode == 0 and len(p.stdout) >= 33:
                    _req(p.stdout[-33:] == secp.ser(secp.gmul(k)), "openssl pubkey")
                    n += 1
        except (OSError, subprocess.TimeoutExpired):
            pass
    return n


def _b58_int(s):
    v = 0
    for ch in s:
        v = v * 58 + base58.ALPHABET.index(ch)
    return v


if __name__ == "__main__":
    import sys
    import time
    t = time.time()
    print("oracle self-test ok:", run(full="--full" in sys.argv), "assertions in %.2fs" % (time.time() - t))
