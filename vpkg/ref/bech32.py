"""Independent Bech32 / Bech32m / segwit address codec.

The checksum is computed as what it *is*: the remainder of a polynomial over
GF(32) modulo the BCH generator polynomial
    g(x) = x^6 + {29}x^5 + {22}x^4 + {20}x^3 + {21}x^2 + {29}x + {18}
with GF(32) = GF(2)[a]/(a^5 + a^3 + 1) (BIP173, "Checksum design"), using an
explicit field multiplication table -- not the five pre-multiplied 30-bit
constants of the BIP's reference code that the library under test embeds.
"""

CHARSET = "qpzry9x8gf2tvdw0s3jn54khce6mua7l"
_CHIDX = {c: i for i, c in enumerate(CHARSET)}
assert len(_CHIDX) == 32

BECH32_CONST = 1
BECH32M_CONST = 0x2BC830A3

_GF_MOD = 0b101001  # a^5 + a^3 + 1


def _gf_mul(a, b):
    r = 0
    for i in range(5):
        if (b >> i) & 1:
            r ^= a << i
    for i in range(8, 4, -1):
        if (r >> i) & 1:
            r ^= _GF_MOD << (i - 5)
    return r


_MUL = [[_gf_mul(a, b) for b in range(32)] for a in range(32)]
# generator polynomial coefficients, x^5 .. x^0 (monic x^6 implied)
_GEN = [29, 22, 20, 21, 29, 18]


def polymod_coeffs(values):
    """Remainder of (1, v0, v1, ...) as a polynomial over GF(32) mod g(x);
    returned as the list of six coefficients x^5..x^0."""
    rem = [0, 0, 0, 0, 0, 1]
    for v in values:
        top = rem[0]
        rem = rem[1:] + [v]
        if top:
            row = _MUL[top]
            rem = [rem[i] ^ row[_GEN[i]] for i in range(6)]
    return rem


def polymod(values):
    c = polymod_coeffs(values)
    r = 0
    for x in c:
        r = (r << 5) | x
    return r


def hrp_expand(hrp):
    return [ord(c) >> 5 for c in hrp] + [0] + [ord(c) & 31 for c in hrp]


def create_checksum(hrp, data, const):
    pm = polymod(hrp_expand(hrp) + list(data) + [0] * 6) ^ const
    return [(pm >> (5 * (5 - i))) & 31 for i in range(6)]


def bech_encode(hrp, data, const):
    """Raw encoder: no validity checks at all (used to build strings that are
    wrong in exactly one way but carry a valid checksum)."""
    allv = list(data) + create_checksum(hrp, data, const)
    return hrp + "1" + "".join(CHARSET[v] for v in allv)


def bech_decode(s):
    """Returns (hrp, data5, const) or None.  BIP173 rules."""
    if any(ord(c) < 33 or ord(c) > 126 for c in s):
        return None
    if s.lower() != s and s.upper() != s:
        return None
    s = s.lower()
    if len(s) > 90:
        return None
    pos = s.rfind("1")
    if pos < 1 or pos + 7 > len(s):
        return None
    hrp, rest = s[:pos], s[pos + 1:]
    data = []
    for c in rest:
        if c not in _CHIDX:
            return None
        data.append(_CHIDX[c])
    pm = polymod(hrp_expand(hrp) + data)
    if pm not in (BECH32_CONST, BECH32M_CONST):
        return None
    return hrp, data[:-6], pm


def to5(data8):
    """8->5 bit regrouping with zero padding (integer accumulator)."""
    acc = 0
    nbits = 0
    out = []
    for b in data8:
        acc = (acc << 8) | b
        nbits += 8
        while nbits >= 5:
            nbits -= 5
            out.append((acc >> nbits) & 31)
            acc &= (1 << nbits) - 1
    if nbits:
        out.append((acc << (5 - nbits)) & 31)
    return out


def from5(data5):
    """5->8 bit regrouping, strict: returns None for >4 padding bits or
    non-zero padding."""
    acc = 0
    nbits = 0
    out = []
    for v in data5:
        acc = (acc << 5) | v
        nbits += 5
        while nbits >= 8:
            nbits -= 8
            out.append((acc >> nbits) & 255)
            acc &= (1 << nbits) - 1
    if nbits >= 5:
        return None
    if acc != 0:
        return None
    return bytes(out)


def legal_program(witver, prog_len):
    if not 0 <= witver <= 16:
        return False
    if not 2 <= prog_len <= 40:
        return False
    if witver == 0 and prog_len not in (20, 32):
        return False
    return True


def segwit_encode(hrp, witver, prog):
    """Specified encoder: None for illegal (version, length) or > 90 chars."""
    if not legal_program(witver, len(prog)):
        return None
    const = BECH32_CONST if witver == 0 else BECH32M_CONST
    s = bech_encode(hrp, [witver] + to5(prog), const)
    if len(s) > 90:
        return None
    return s


def segwit_decode(hrp, addr):
    """Returns (witver, program bytes) or None, per BIP173/BIP350."""
    d = bech_decode(addr)
    if d is None:
        return None
    hrpgot, data, const = d
    if hrpgot != hrp:
        return None
    if not data:
        return None
    witver = data[0]
    prog = from5(data[1:])
    if prog is None:
        return None
    if not legal_program(witver, len(prog)):
        return None
    if witver == 0 and const != BECH32_CONST:
        return None
    if witver != 0 and const != BECH32M_CONST:
        return None
    return witver, prog


def segwit_decode_any(addr):
    """Decode with the HRP taken from the string itself."""
    d = bech_decode(addr)
    if d is None:
        return None
    r = segwit_decode(d[0], addr)
    if r is None:
        return None
    return d[0], r[0], r[1]
