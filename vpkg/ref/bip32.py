"""Reference BIP32 from the BIP text, over vpkg.ref primitives only."""
from . import secp
from .hashes import hmac_sha512, hash160
from . import base58

HARD = 1 << 31


class InvalidChild(Exception):
    """BIP32 declares the derived key invalid."""


class HardenedFromPublic(Exception):
    pass


def ser32(i):
    return i.to_bytes(4, "big")


def ser256(k):
    return k.to_bytes(32, "big")


class XKey:
    """An extended key as a plain value.  k is an int (private) or None;
    K is an affine point."""
    __slots__ = ("k", "K", "c", "depth", "index", "pfp")

    def __init__(self, k, K, c, depth=0, index=0, pfp=b"\x00\x00\x00\x00"):
        self.k = k
        self.K = K if K is not None else secp.gmul(k)
        self.c = c
        self.depth = depth
        self.index = index
        self.pfp = pfp

    @property
    def is_private(self):
        return self.k is not None

    def sec(self):
        return secp.ser(self.K, True)

    def fingerprint(self):
        return hash160(self.sec())[:4]

    def neuter(self):
        return XKey(None, self.K, self.c, self.depth, self.index, self.pfp)

    def payload(self, version, private):
        if private:
            if self.k is None:
                raise ValueError("no private key")
            keydata = b"\x00" + ser256(self.k)
        else:
            keydata = self.sec()
        return (ser32(version) + bytes([self.depth]) + self.pfp
                + ser32(self.index) + self.c + keydata)

    def xprv(self, version):
        return base58.encode_check(self.payload(version, True))

    def xpub(self, version):
        return base58.encode_check(self.payload(version, False))

    def fields(self):
        return {"k": self.k, "K": self.sec().hex(), "c": self.c.hex(),
                "depth": self.depth, "index": self.index, "pfp": self.pfp.hex()}


def master_from_I(I):
    IL, IR = I[:32], I[32:]
    k = int.from_bytes(IL, "big")
    if k == 0 or k >= secp.N:
        raise InvalidChild("master IL out of range")
    return XKey(k, None, IR)


def master(seed):
    return master_from_I(hmac_sha512(b"Bitcoin seed", seed))


def ckd_data(parent, i):
    """The PRF input BIP32 prescribes for (parent, i)."""
    if i >= HARD:
        if parent.k is None:
            raise HardenedFromPublic()
        return b"\x00" + ser256(parent.k) + ser32(i)
    return parent.sec() + ser32(i)


def ckd_priv_from_I(parent, i, I):
    IL, IR = I[:32], I[32:]
    il = int.from_bytes(IL, "big")
    if il >= secp.N:
        raise InvalidChild("IL >= n")
    k = (il + parent.k) % secp.N
    if k == 0:
        raise InvalidChild("child key zero")
    return XKey(k, None, IR, parent.depth + 1, i, parent.fingerprint())


def ckd_pub_from_I(parent, i, I):
    if i >= HARD:
        raise HardenedFromPublic()
    IL, IR = I[:32], I[32:]
    il = int.from_bytes(IL, "big")
    if il >= secp.N:
        raise InvalidChild("IL >= n")
    K = secp.add(secp.gmul(il), parent.K)
    if K is None:
        raise InvalidChild("infinity")
    return XKey(None, K, IR, parent.depth + 1, i, parent.fingerprint())


def ckd_priv(parent, i, prf=hmac_sha512):
    if not 0 <= i < (1 << 32):
        raise ValueError("index out of range")
    return ckd_priv_from_I(parent, i, prf(parent.c, ckd_data(parent, i)))


def ckd_pub(parent, i, prf=hmac_sha512):
    if not 0 <= i < (1 << 32):
        raise ValueError("index out of range")
    if i >= HARD:
        raise HardenedFromPublic()
    return ckd_pub_from_I(parent, i, prf(parent.c, parent.sec() + ser32(i)))


def derive(root, path):
    node = root
    for i in path:
        node = ckd_priv(node, i) if node.k is not None else ckd_pub(node, i)
    return node


def parse_payload(raw):
    """Strict 78-byte parse -> (version, XKey, is_private)."""
    if len(raw) != 78:
        raise ValueError("length %d" % len(raw))
    version = int.from_bytes(raw[:4], "big")
    depth = raw[4]
    pfp = raw[5:9]
    index = int.from_bytes(raw[9:13], "big")
    c = raw[13:45]
    kd = raw[45:]
    if kd[0] == 0:
        k = int.from_bytes(kd[1:], "big")
        if not secp.valid_scalar(k):
            raise ValueError("scalar out of range")
        return version, XKey(k, None, c, depth, index, pfp), True
    K = secp.parse(kd)
    return version, XKey(None, K, c, depth, index, pfp), False


def parse_xkey(s):
    return parse_payload(base58.decode_check(s))


# ---------------------------------------------------------------- SLIP-132
# (type, network, purpose) -> version; typed from SLIP-0132.
SLIP132 = {
    ("pub", "main", 44): 0x0488B21E,  # xpub
    ("prv", "main", 44): 0x0488ADE4,  # xprv
    ("pub", "main", 49): 0x049D7CB2,  # ypub
    ("prv", "main", 49): 0x049D7878,  # yprv
    ("pub", "main", 84): 0x04B24746,  # zpub
    ("prv", "main", 84): 0x04B2430C,  # zprv
    ("pub", "test", 44): 0x043587CF,  # tpub
    ("prv", "test", 44): 0x04358394,  # tprv
    ("pub", "test", 49): 0x044A5262,  # upub
    ("prv", "test", 49): 0x044A4E28,  # uprv
    ("pub", "test", 84): 0x045F1CF6,  # vpub
    ("prv", "test", 84): 0x045F18BC,  # vprv
}
SLIP132_INV = {v: k for k, v in SLIP132.items()}
SPELL = {
    ("main", 44): "x", ("main", 49): "y", ("main", 84): "z",
    ("test", 44): "t", ("test", 49): "u", ("test", 84): "v",
}


def spelled_prefix(typ, net, purpose):
    return SPELL[(net, purpose)] + typ


def version_for(typ, testnet, purpose):
    return SLIP132[(typ, "test" if testnet else "main", purpose)]
