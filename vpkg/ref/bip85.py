"""Reference BIP85 from the BIP text."""
from . import bip32, bip39, secp, base58
from .hashes import hmac_sha512

H = bip32.HARD
ROOT = 83696968
_B64 = "ABCDEFGHIJKLMNOPQRSTUVWXYZabcdefghijklmnopqrstuvwxyz0123456789+/"


class Rejected(Exception):
    """Parameters are outside what BIP85 allows."""


def _idx_ok(i):
    return isinstance(i, int) and not isinstance(i, bool) and 0 <= i < H


def path_mnemonic(words, index):
    return [ROOT + H, 39 + H, 0 + H, words + H, index + H]


def path_wif(index):
    return [ROOT + H, 2 + H, index + H]


def path_xprv(index):
    return [ROOT + H, 32 + H, index + H]


def path_hex(nbytes, index):
    return [ROOT + H, 128169 + H, nbytes + H, index + H]


def path_pwd(length, index):
    return [ROOT + H, 707764 + H, length + H, index + H]


def path_str(p):
    return "m/" + "/".join("%d'" % (i - H) for i in p)


def entropy(master, path):
    node = bip32.derive(master, path)
    return hmac_sha512(b"bip-entropy-from-k", bip32.ser256(node.k))


def mnemonic(master, words, index):
    if words not in (12, 15, 18, 21, 24) or not _idx_ok(index):
        raise Rejected()
    e = entropy(master, path_mnemonic(words, index))
    return bip39.mnemonic(e[: words * 4 // 3])


def wif_from_entropy(e):
    k = int.from_bytes(e[:32], "big")
    if not secp.valid_scalar(k):
        raise bip32.InvalidChild("bip85 wif secret out of range")
    return base58.encode_check(b"\x80" + e[:32] + b"\x01")


def wif(master, index):
    if not _idx_ok(index):
        raise Rejected()
    return wif_from_entropy(entropy(master, path_wif(index)))


def xprv_from_entropy(e):
    c, kb = e[:32], e[32:]
    k = int.from_bytes(kb, "big")
    if not secp.valid_scalar(k):
        raise bip32.InvalidChild("bip85 xprv secret out of range")
    return bip32.XKey(k, None, c).xprv(0x0488ADE4)


def xprv(master, index):
    if not _idx_ok(index):
        raise Rejected()
    return xprv_from_entropy(entropy(master, path_xprv(index)))


def hex_(master, nbytes, index):
    if not (isinstance(nbytes, int) and 16 <= nbytes <= 64) or not _idx_ok(index):
        raise Rejected()
    return entropy(master, path_hex(nbytes, index))[:nbytes].hex()


def b64(data):
    out = []
    for i in range(0, len(data), 3):
        chunk = data[i:i + 3]
        v = int.from_bytes(chunk + b"\x00" * (3 - len(chunk)), "big")
        q = [_B64[(v >> s) & 63] for s in (18, 12, 6, 0)]
        if len(chunk) == 1:
            q[2] = q[3] = "="
        elif len(chunk) == 2:
            q[3] = "="
        out.extend(q)
    return "".join(out)


def pwd(master, length, index):
    if not (isinstance(length, int) and 20 <= length <= 86) or not _idx_ok(index):
        raise Rejected()
    return b64(entropy(master, path_pwd(length, index)))[:length]
