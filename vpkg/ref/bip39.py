"""Reference BIP39: integer bit packing, independent decoder, own PBKDF2."""
import hashlib
import os
import unicodedata

from .hashes import sha256, pbkdf2_hmac_sha512

_HERE = os.path.dirname(os.path.abspath(__file__))
_LIST_PATH = os.path.normpath(os.path.join(_HERE, "..", "..", "corpus", "bip39_english.txt"))
# SHA-256 of the official bips/bip-0039/english.txt (2048 lines, LF-terminated)
ENGLISH_SHA256 = "2f5eed53a4727b4bf8880d8f3f199efc90e58503646d9ff8eff3a2ed3b24dbda"

ALLOWED_ENT = (128, 160, 192, 224, 256)
WORDS_FOR_ENT = {128: 12, 160: 15, 192: 18, 224: 21, 256: 24}
ENT_FOR_WORDS = {v: k for k, v in WORDS_FOR_ENT.items()}


class OracleListError(Exception):
    pass


def _load():
    raw = open(_LIST_PATH, "rb").read()
    if hashlib.sha256(raw).hexdigest() != ENGLISH_SHA256:
        raise OracleListError("committed word list does not have the official digest")
    words = raw.decode("ascii").split("\n")[:-1]
    if len(words) != 2048 or len(set(words)) != 2048 or words != sorted(words):
        raise OracleListError("structure")
    if len({w[:4] for w in words}) != 2048:
        raise OracleListError("4-letter prefixes not unique")
    if not all(3 <= len(w) <= 8 and w.isascii() and w.islower() and w.isalpha() for w in words):
        raise OracleListError("word shape")
    return words


WORDS = _load()
WORD_INDEX = {w: i for i, w in enumerate(WORDS)}


def encode(entropy):
    """entropy bytes (allowed size) -> list of words."""
    ent = len(entropy) * 8
    if ent not in ALLOWED_ENT:
        raise ValueError("entropy size")
    cs = ent // 32
    v = (int.from_bytes(entropy, "big") << cs) | (sha256(entropy)[0] >> (8 - cs))
    n = (ent + cs) // 11
    return [WORDS[(v >> (11 * (n - 1 - j))) & 0x7FF] for j in range(n)]


def mnemonic(entropy):
    return " ".join(encode(entropy))


def decode(words):
    """list of words -> (entropy bytes, checksum_ok).  Raises on unknown word
    or illegal count."""
    n = len(words)
    if n not in ENT_FOR_WORDS:
        raise ValueError("word count %d" % n)
    v = 0
    for w in words:
        if w not in WORD_INDEX:
            raise ValueError("unknown word %r" % w)
        v = (v << 11) | WORD_INDEX[w]
    ent = ENT_FOR_WORDS[n]
    cs = ent // 32
    entropy = (v >> cs).to_bytes(ent // 8, "big")
    ok = (v & ((1 << cs) - 1)) == (sha256(entropy)[0] >> (8 - cs))
    return entropy, ok


def nfkd(s):
    return unicodedata.normalize("NFKD", s)


def nfkd_own(s):
    """Own NFKD: full compatibility decomposition from unicodedata's per-char
    decomposition field + algorithmic Hangul, then canonical ordering by
    combining class.  Used only to cross-check unicodedata.normalize."""
    out = []

    def dec(ch):
        cp = ord(ch)
        if 0xAC00 <= cp <= 0xD7A3:
            s_index = cp - 0xAC00
            l = 0x1100 + s_index // 588
            v = 0x1161 + (s_index % 588) // 28
            t = 0x11A7 + s_index % 28
            out.append(chr(l))
            out.append(chr(v))
            if t != 0x11A7:
                out.append(chr(t))
            return
        d = unicodedata.decomposition(ch)
        if not d:
            out.append(ch)
            return
        parts = d.split()
        if parts[0].startswith("<"):
            parts = parts[1:]
        for p in parts:
            dec(chr(int(p, 16)))

    for ch in s:
        dec(ch)
    # canonical ordering
    i = 0
    res = list(out)
    n = len(res)
    while i < n:
        if unicodedata.combining(res[i]) == 0:
            i += 1
            continue
        j = i
        while j < n and unicodedata.combining(res[j]) != 0:
            j += 1
        res[i:j] = sorted(res[i:j], key=unicodedata.combining)  # stable
        i = j
    return "".join(res)


def seed(mnemonic_str, passphrase=""):
    m = nfkd(mnemonic_str).encode("utf-8")
    salt = ("mnemonic" + nfkd(passphrase)).encode("utf-8")
    return pbkdf2_hmac_sha512(m, salt, 2048, 64)
