"""Reference address / WIF constructions and independent classifiers."""
from . import base58, bech32, secp, bip32, bip39
from .hashes import sha256, hash160

P2PKH = {False: 0x00, True: 0x6F}
P2SH = {False: 0x05, True: 0xC4}
WIFV = {False: 0x80, True: 0xEF}
HRP = {False: "bc", True: "tb"}


def p2pkh(sec, testnet):
    return base58.encode_check(bytes([P2PKH[testnet]]) + hash160(sec))


def p2wpkh(sec, testnet):
    return bech32.segwit_encode(HRP[testnet], 0, hash160(sec))


def p2wpkh_redeem(sec):
    return b"\x00\x14" + hash160(sec)


def p2sh_p2wpkh(sec, testnet):
    return base58.encode_check(bytes([P2SH[testnet]]) + hash160(p2wpkh_redeem(sec)))


def witness_script_1of1(sec):
    return b"\x51" + bytes([len(sec)]) + sec + b"\x51\xae"


def p2wsh(sec, testnet):
    return bech32.segwit_encode(HRP[testnet], 0, sha256(witness_script_1of1(sec)))


def p2sh_p2wsh(sec, testnet):
    redeem = b"\x00\x20" + sha256(witness_script_1of1(sec))
    return base58.encode_check(bytes([P2SH[testnet]]) + hash160(redeem))


KINDS = {
    "p2pkh": p2pkh, "p2wpkh": p2wpkh, "p2sh_p2wpkh": p2sh_p2wpkh,
    "p2wsh": p2wsh, "p2sh_p2wsh": p2sh_p2wsh,
}


def wif(k, compressed=True, testnet=False):
    return base58.encode_check(bytes([WIFV[testnet]]) + k.to_bytes(32, "big")
                               + (b"\x01" if compressed else b""))


def decode_address(s):
    """Independent decode -> dict(kind-family, network, payload) or None."""
    kind, payload = base58.classify_check(s) if all(ord(c) < 128 for c in s) else ("badchar", None)
    if kind == "valid" and len(payload) == 21:
        v = payload[0]
        for net in (False, True):
            if v == P2PKH[net]:
                return {"enc": "base58", "type": "p2pkh", "testnet": net, "hash": payload[1:]}
            if v == P2SH[net]:
                return {"enc": "base58", "type": "p2sh", "testnet": net, "hash": payload[1:]}
        return None
    r = bech32.segwit_decode_any(s)
    if r is not None:
        hrp, ver, prog = r
        if hrp in ("bc", "tb"):
            return {"enc": "bech32", "type": "witness", "testnet": hrp == "tb",
                    "witver": ver, "hash": prog}
    return None


def classify_string(s):
    """Classify an arbitrary string leaf.  Returns a dict with at least
    'class' in {address, wif, xprv, xpub, mnemonic, other} and, where the
    encoding carries one, 'testnet'."""
    if not isinstance(s, str) or not s:
        return {"class": "other"}
    if all(c in base58._INDEX for c in s):
        kind, payload = base58.classify_check(s)
        if kind == "valid":
            if len(payload) == 21:
                a = decode_address(s)
                if a:
                    return {"class": "address", **a}
            if len(payload) in (33, 34) and payload[0] in (0x80, 0xEF):
                if len(payload) == 33 or payload[-1] == 1:
                    k = int.from_bytes(payload[1:33], "big")
                    return {"class": "wif", "testnet": payload[0] == 0xEF, "k": k,
                            "compressed": len(payload) == 34,
                            "in_range": secp.valid_scalar(k)}
            if len(payload) == 78:
                ver = int.from_bytes(payload[:4], "big")
                info = bip32.SLIP132_INV.get(ver)
                private_shape = payload[45] == 0
                d = {"class": "xprv" if (private_shape or (info and info[0] == "prv")) else "xpub",
                     "version": ver, "known_version": info is not None,
                     "private_shape": private_shape}
                if info:
                    d["testnet"] = info[1] == "test"
                    d["purpose"] = info[2]
                    d["vtype"] = info[0]
                return d
    a = decode_address(s)
    if a:
        return {"class": "address", **a}
    words = s.split(" ")
    if len(words) in bip39.ENT_FOR_WORDS and all(w in bip39.WORD_INDEX for w in words):
        _e, ok = bip39.decode(words)
        return {"class": "mnemonic", "checksum_ok": ok}
    return {"class": "other"}


def contains_mnemonic_run(s):
    """True when s contains >= 12 consecutive list words forming, for some
    window of an allowed length, a sentence with a valid checksum."""
    toks = s.replace("\n", " ").split(" ")
    n = len(toks)
    for L in (24, 21, 18, 15, 12):
        for i in range(0, n - L + 1):
            w = toks[i:i + L]
            if all(t in bip39.WORD_INDEX for t in w):
                if bip39.decode(w)[1]:
                    return True
    return False
