"""Independent Base58 / Base58Check: byte-wise long division (the algorithm
used by Bitcoin Core's base58.cpp), no big-int conversion, explicit
leading-zero accounting."""
from .hashes import hash256

ALPHABET = "123456789ABCDEFGHJKLMNPQRSTUVWXYZabcdefghijkmnopqrstuvwxyz"
_INDEX = {c: i for i, c in enumerate(ALPHABET)}
assert len(ALPHABET) == 58 and len(_INDEX) == 58


class B58Error(ValueError):
    pass


LONG = 1024      # (above this the byte-wise algorithm - quadratic in interpreted Python - gives way to chunked big-integer arithmetic)
_P10 = 58 ** 10


def _encode_long(data):
    """Same function by a different route (for long inputs only): the value as ONE integer, ten Base58 digits per division.
    Cross-checked against the byte-wise algorithm on every length up to 300 by ref.selftest."""
    zeros = 0
    while zeros < len(data) and data[zeros] == 0:
        zeros += 1
    n = int.from_bytes(data[zeros:], "big")
    groups = []
    while n:
        n, r = divmod(n, _P10)
        groups.append(r)
    out = []
    for gi, g in enumerate(groups):
        ds = []
        for _ in range(10):
            g, d = divmod(g, 58)
            ds.append(ALPHABET[d])
        out.append("".join(reversed(ds)))
    body = "".join(reversed(out)).lstrip(ALPHABET[0])
    return "1" * zeros + body


def _decode_long(s):
    zeros = 0
    while zeros < len(s) and s[zeros] == "1":
        zeros += 1
    for ch in s:
        if ch not in _INDEX:
            raise B58Error("bad character %r" % ch)
    body = s[zeros:]
    n = 0
    head = len(body) % 10
    v = 0
    for ch in body[:head]:
        v = v * 58 + _INDEX[ch]
    n = v
    for i in range(head, len(body), 10):
        v = 0
        for ch in body[i:i + 10]:
            v = v * 58 + _INDEX[ch]
        n = n * _P10 + v
    raw = n.to_bytes((n.bit_length() + 7) // 8, "big") if n else b""
    return b"\x00" * zeros + raw


def encode(data):
    if len(data) > LONG:
        return _encode_long(data)
    zeros = 0
    while zeros < len(data) and data[zeros] == 0:
        zeros += 1
    # b58 digits, little end first
    digits = []
    for byte in data[zeros:]:
        carry = byte
        for i in range(len(digits)):
            carry += digits[i] << 8
            digits[i] = carry % 58
            carry //= 58
        while carry:
            digits.append(carry % 58)
            carry //= 58
    return "1" * zeros + "".join(ALPHABET[d] for d in reversed(digits))


def decode(s):
    if len(s) > LONG + LONG // 2:
        return _decode_long(s)
    zeros = 0
    while zeros < len(s) and s[zeros] == "1":
        zeros += 1
    out = []  # base-256 digits, little end first
    for ch in s[zeros:]:
        if ch not in _INDEX:
            raise B58Error("bad character %r" % ch)
        carry = _INDEX[ch]
        for i in range(len(out)):
            carry += out[i] * 58
            out[i] = carry & 0xFF
            carry >>= 8
        while carry:
            out.append(carry & 0xFF)
            carry >>= 8
    for ch in s[:zeros]:
        if ch not in _INDEX:  # pragma: no cover
            raise B58Error("bad character %r" % ch)
    return b"\x00" * zeros + bytes(reversed(out))


def encode_check(payload):
    return encode(payload + hash256(payload)[:4])


def classify_check(s):
    """Decide what a conforming Base58Check decoder does with s.

    Returns ('badchar', None) | ('short', None) | ('mismatch', None) |
            ('valid', payload)
    """
    for ch in s:
        if ch not in _INDEX:
            return ("badchar", None)
    raw = decode(s)
    if len(raw) < 4:
        return ("short", None)
    payload, chk = raw[:-4], raw[-4:]
    if hash256(payload)[:4] != chk:
        return ("mismatch", None)
    return ("valid", payload)


def decode_check(s):
    kind, payload = classify_check(s)
    if kind != "valid":
        raise B58Error(kind)
    return payload
