"""Strict BIP32 path grammar:  [mM] ( '/' DIGITS ( "'" | 'h' )? )*
Plus a lenient classifier for spellings Python's int() accepts."""

H = 1 << 31
_ASCII_DIGITS = set("0123456789")


class PathError(ValueError):
    pass


def parse_strict(s):
    """Returns (root, [indexes]) or raises PathError."""
    if not isinstance(s, str) or not s:
        raise PathError("empty")
    parts = s.split("/")
    if parts[0] not in ("m", "M"):
        raise PathError("root")
    out = []
    for comp in parts[1:]:
        if comp == "":
            raise PathError("empty component")
        hard = comp[-1] in ("'", "h")
        num = comp[:-1] if hard else comp
        if not num or any(ch not in _ASCII_DIGITS for ch in num):
            raise PathError("non-decimal component %r" % comp)
        v = int(num)
        if hard:
            if v >= H:
                raise PathError("hardened number out of range")
            v += H
        elif v >= 1 << 32:
            raise PathError("index out of range")
        out.append(v)
    return parts[0], out


def fmt(indexes, root="m"):
    return "/".join([root] + [("%d'" % (i - H)) if i >= H else str(i) for i in indexes])


def classify(s):
    """Classify an arbitrary string.

    ('strict', root, list)          - in the grammar
    ('lenient', root, list)         - every component is something int()
                                      accepts and in range (e.g. '+5', ' 7',
                                      '007' is strict already, '1_0'); also a
                                      single trailing '/' (pinned by the suite)
    ('malformed', reason)           - must be rejected
    """
    try:
        root, lst = parse_strict(s)
        return ("strict", root, lst)
    except PathError as e:
        reason = str(e)
    if not isinstance(s, str) or not s:
        return ("malformed", "empty")
    parts = s.split("/")
    if parts[0] not in ("m", "M"):
        return ("malformed", "root")
    comps = parts[1:]
    # trailing empty components are tolerated (suite pins "m/0/0/0/0/0/")
    while comps and comps[-1] == "":
        comps = comps[:-1]
    out = []
    for comp in comps:
        if comp == "":
            return ("malformed", "empty inner component")
        hard = comp[-1] in ("'", "h")
        num = comp[:-1] if hard else comp
        try:
            v = int(num)
        except ValueError:
            return ("malformed", "non-decimal component")
        if v < 0:
            return ("malformed", "negative")
        if hard:
            if v >= H:
                return ("malformed", "hardened number out of range")
            v += H
        elif v >= 1 << 32:
            return ("malformed", "index out of range")
        out.append(v)
    return ("lenient", parts[0], out)
