"""Shared run-time context: monitors, verdict bookkeeping, evidence data.

A *monitor* is a named oracle attached to executions of the real code.  Every
adjudication goes through Ctx.judge(), which counts reached/agreed/disagreed,
records the witness of a disagreement, and tracks coverage cells so that the
evidence says what was actually observed.
"""
import hashlib
import json
import os
import random
import sys
import threading
import time

VERIF = os.path.dirname(os.path.dirname(os.path.abspath(__file__)))
REPO = os.environ.get("VP_REPO", "/repo")

MAX_WITNESSES_PER_MECH = 5
MAX_SAMPLES = 12
DIGEST_CAP = 400000     # per shard; beyond it cases are still judged but no longer counted as distinct (lower bound)


def jz(o):
    """Make a value JSON-serialisable and readable (bytes -> hex)."""
    if isinstance(o, (bytes, bytearray)):
        return "hex:" + bytes(o).hex()
    if isinstance(o, dict):
        return {str(k): jz(v) for k, v in o.items()}
    if isinstance(o, (list, tuple, set, frozenset)):
        return [jz(x) for x in o]
    if isinstance(o, (str, int, float, bool)) or o is None:
        if isinstance(o, int) and not isinstance(o, bool) and abs(o) >= 1 << 53:
            return "int:" + hex(o)
        return o
    if isinstance(o, BaseException):
        return "%s(%s)" % (type(o).__name__, str(o)[:200])
    return repr(o)[:300]


def unjz(o):
    if isinstance(o, str):
        if o.startswith("hex:"):
            return bytes.fromhex(o[4:])
        if o.startswith("int:"):
            return int(o[4:], 16)
        return o
    if isinstance(o, dict):
        return {k: unjz(v) for k, v in o.items()}
    if isinstance(o, list):
        return [unjz(x) for x in o]
    return o


def digest(o):
    return hashlib.sha256(json.dumps(jz(o), sort_keys=True).encode()).hexdigest()[:16]


class Inconclusive(Exception):
    pass


class Ctx:
    def __init__(self, prop, tier="quick", seed=0, shard=0, nshards=1, replay=None):
        self.prop = prop
        self.tier = tier
        self.seed = seed
        self.shard = shard
        self.nshards = nshards
        self.replay = replay
        self.rnd = random.Random("%s/%d/%d" % (prop, seed, shard))
        self.monitors = {}
        self.violations = []
        self._mech_counts = {}
        self.cells = set()
        self.digests = set()
        self.digest_overflow = 0
        self.mult = 1            # thorough-tier budget multiplier (module attribute THOROUGH_MULT)
        self.samples = []
        self.classes = {}
        self.extra = {}
        self.notes = []
        self.inconclusive = []
        self.t0 = time.time()
        self._lock = threading.RLock()

    # ------------------------------------------------------------ sharding
    def mine(self, i):
        """Deterministic partition of enumerated (non-random) work.  Shards come in PAIRS (2j, 2j+1) that differ in their
        interpreter configuration (plain / python -O, see driver.interpreter_optimize): both shards of a pair take the same
        enumerated items, so that every enumerated corner case is judged under both configurations in every run."""
        if self.nshards < 2 or self.nshards % 2:
            return i % self.nshards == self.shard
        return i % (self.nshards // 2) == self.shard // 2

    def mine_once(self, i):
        """Partition for HEAVY one-off scenarios (long listings, capacity runs, pre-emption sweeps): one shard only; which
        configuration that shard has changes with the run seed."""
        return i % self.nshards == self.shard

    def scale(self, quick, thorough):
        """Per-shard count for random work given total budgets per tier."""
        total = thorough * self.mult if self.tier == "thorough" else quick
        per = total // self.nshards
        if self.shard < total % self.nshards:
            per += 1
        return per

    @property
    def thorough(self):
        return self.tier == "thorough"

    # ------------------------------------------------------------ monitors
    def mon(self, name):
        m = self.monitors.get(name)
        if m is None:
            m = self.monitors[name] = {"reached": 0, "agreed": 0, "disagreed": 0}
        return m

    def reach(self, name, n=1):
        self.mon(name)["reached"] += n

    def judge(self, monitor, ok, case=None, expected=None, observed=None,
              cls=None, outcome=None, mech=None, note=None):
        """Record one adjudication.

        monitor : oracle name
        ok      : True = agreed
        case    : exact replayable input (JSON-able after jz)
        cls     : input-class tag (coverage cell)
        outcome : outcome class (coverage cell)
        mech    : mechanism key of a disagreement (for known-findings matching)
        """
        with self._lock:
            return self._judge(monitor, ok, case, expected, observed, cls, outcome, mech, note)

    def _judge(self, monitor, ok, case, expected, observed, cls, outcome, mech, note):
        m = self.mon(monitor)
        m["reached"] += 1
        if cls is not None:
            self.classes[cls] = self.classes.get(cls, 0) + 1
            self.cells.add("%s|%s|%s" % (monitor, cls, outcome if outcome is not None else ("ok" if ok else "bad")))
        if case is not None:
            if len(self.digests) >= DIGEST_CAP:
                self.digest_overflow += 1
                d = None
            else:
                d = digest([monitor, case])
            if d is not None and d not in self.digests:
                self.digests.add(d)
                if len(self.samples) < MAX_SAMPLES and (len(self.samples) < 4 or self.rnd.random() < 0.02):
                    self.samples.append({"monitor": monitor, "class": cls, "case": jz(case),
                                         "outcome": outcome if outcome is not None else ("agreed" if ok else "disagreed")})
        if ok:
            m["agreed"] += 1
            return True
        m["disagreed"] += 1
        mech = mech or ("%s.%s" % (self.prop, monitor))
        c = self._mech_counts.get(mech, 0)
        self._mech_counts[mech] = c + 1
        if c < MAX_WITNESSES_PER_MECH:
            self.violations.append({
                "property": self.prop, "monitor": monitor, "mech": mech, "class": cls,
                "seed": self.seed, "shard": self.shard, "tier": self.tier, "optimize": sys.flags.optimize,
                "no_ossl_ripemd": os.environ.get("VP_NO_OSSL_RIPEMD") == "1", "extra_env": os.environ.get("VP_EXTRA_ENV", ""),
                "debug_logging": os.environ.get("VP_DEBUG_LOGGING") == "1",
                "case": jz(case), "expected": jz(expected), "observed": jz(observed),
                "note": note,
            })
        return False

    def note_inconclusive(self, reason):
        self.inconclusive.append(reason)

    def require_reached(self, monitor, minimum=1):
        if self.mon(monitor)["reached"] < minimum:
            self.note_inconclusive("monitor %s reached %d < %d" % (monitor, self.mon(monitor)["reached"], minimum))

    # ------------------------------------------------------------ result
    def result(self):
        return {
            "property": self.prop, "tier": self.tier, "seed": self.seed,
            "shard": self.shard, "nshards": self.nshards,
            "monitors": self.monitors,
            "violations": self.violations,
            "mech_counts": self._mech_counts,
            "cells": sorted(self.cells),
            "digests": sorted(self.digests),
            "digest_overflow": self.digest_overflow,
            "samples": self.samples,
            "classes": self.classes,
            "extra": jz(self.extra),
            "notes": self.notes,
            "inconclusive": self.inconclusive,
            "wall_s": time.time() - self.t0,
        }


def fresh_str(s):
    """An equal string that is NOT the same object as any literal in the library (or here): what arrives from JSON, argv, a
    config file or str.lower().  Code that compares strings by identity works for literals only."""
    return "".join([s[:1], s[1:]]) if len(s) > 1 else (s + " ").strip()


def refused(fn, attempts=3):
    """A refusal has to be STABLE: the same illegal request repeated straight away (a retry, a second entry point fed the
    same bytes) must be refused again - state left behind by the first refusal must not make the second succeed.
    Returns (ok, observed, outcome): ok iff every attempt raised; outcome 'raised:<Type>' or 'accepted@<attempt>'."""
    last = None
    for a in range(attempts):
        try:
            r = fn()
        except (KeyboardInterrupt, SystemExit, GeneratorExit):
            raise
        except BaseException as e:  # noqa
            if type(e).__name__ == "WorkerDeadline":
                raise
            if raised_by_harness(e):
                # the exception was raised by the machinery's own code (a conversion of what the call RETURNED, an observer, a
                # stub) - the library did not refuse anything: never count this as a refusal
                return False, "no refusal by the library; harness-side error afterwards: %s: %s" % (type(e).__name__, str(e)[:160]), "accepted@%d" % (a + 1)
            last = e
            continue
        return False, r, "accepted@%d" % (a + 1)
    return True, last, "raised:" + type(last).__name__


_HARNESS_DIR = os.path.join(VERIF, "vpkg") + os.sep


def raised_by_harness(e):
    """True iff the innermost frame of the exception's traceback is code of this machinery (vpkg/...), i.e. the exception did
    not come out of the library under test or of something the library called."""
    tb = e.__traceback__
    if tb is None:
        return False
    while tb.tb_next is not None:
        tb = tb.tb_next
    return os.path.realpath(tb.tb_frame.f_code.co_filename).startswith(_HARNESS_DIR)


def load_repo():
    """Put the repo under test first on sys.path and make sure that is what
    gets imported."""
    repo = os.path.realpath(REPO)
    if repo not in sys.path[:1]:
        sys.path.insert(0, repo)
    if os.environ.get("VP_BACKEND") == "standin":
        # second CONFIGURATION (observation only): a pure-Python stand-in for pysecp256k1 makes the libsecp `try:` arms live
        sys.path.insert(0, os.path.join(VERIF, "vpkg", "standin"))
    import btc_hd_wallet
    got = os.path.realpath(btc_hd_wallet.__file__)
    if not got.startswith(repo + os.sep):
        raise Inconclusive("btc_hd_wallet imported from %s, not from %s" % (got, repo))
    # import all submodules so probes can rebind every namespace
    import importlib
    for m in ("helper", "ripemd", "bech32", "keys", "bip32", "bip39", "bip85", "wallet_utils",
              "script", "op", "base_wallet", "paper_wallet", "__main__"):
        importlib.import_module("btc_hd_wallet." + m)
    return btc_hd_wallet


def backend():
    import btc_hd_wallet.keys as keys
    if hasattr(keys, "CURVE_ORDER"):
        return "ecdsa-fallback"
    import pysecp256k1
    return "libsecp256k1-standin" if "standin" in (pysecp256k1.__file__ or "") else "libsecp256k1"
