"""Boundary values harvested from the code under test at run time.

Thresholds a change introduces (a batch size, a cache capacity, a "fast path up to N bytes", a table of extra version
numbers) have to be written down somewhere in the code that runs.  This module compiles every source file of the package in
the working tree, walks the constants of every code object, and adds what the imported modules hold at module / class level
(numbers and the contents of small containers).  The checks use the result only to SIZE and AIM workloads - K-1, K, K+1, K+3,
2K, 2K+1 rows / bytes / entries / distinct requests for every harvested K in a plausible range, and harvested 32-bit values
as candidate version prefixes - never as a verdict: a harvested number by itself means nothing, what decides is still the
oracle observing the execution the number led to.

On the unchanged tree the numbers in listing / capacity range are 520, 2048, 65536, 1000000 and 1209600."""
import glob
import os
import sys
import types


def _add(c, out, depth=0):
    if isinstance(c, bool) or c is None:
        return
    if isinstance(c, int):
        out.add(c)
    elif isinstance(c, (tuple, frozenset, list, set)) and depth < 3 and len(c) <= 4096:
        for x in c:
            _add(x, out, depth + 1)
    elif isinstance(c, dict) and depth < 3 and len(c) <= 4096:
        for k, v in c.items():
            _add(k, out, depth + 1)
            _add(v, out, depth + 1)
    elif isinstance(c, (bytes, bytearray)) and len(c) == 4:
        out.add(int.from_bytes(c, "big"))


_DIGITS = None


def _add_name(name, out):
    """Numbers that live inside IDENTIFIERS ('BIP86', 'sha512', 'p2wsh_v16'): a value recovered at run time with int(name[3:])
    is written down in the code as well - just not as an integer constant.  (String constants are not scanned: test vectors
    and docstrings are full of digits that mean nothing.)"""
    global _DIGITS
    if _DIGITS is None:
        import re
        _DIGITS = re.compile(r"[0-9]{1,10}")
    if isinstance(name, str) and len(name) <= 64:
        for m in _DIGITS.findall(name):
            out.add(int(m))


def _walk(co, out):
    for nm in co.co_names + co.co_varnames + (co.co_name,):
        _add_name(nm, out)
    for c in co.co_consts:
        if isinstance(c, types.CodeType):
            _walk(c, out)
        else:
            _add(c, out)


_CACHE = {}


def ints(repo_dir):
    """Every integer written down in the package's sources (compiled from the working tree) or held at module / class level by
    its imported modules."""
    repo_dir = os.path.abspath(repo_dir)
    if repo_dir in _CACHE:
        return _CACHE[repo_dir]
    out = set()
    pkg = os.path.join(repo_dir, "btc_hd_wallet")
    for f in sorted(glob.glob(os.path.join(pkg, "**", "*.py"), recursive=True)):
        try:
            _walk(compile(open(f, encoding="utf-8").read(), f, "exec"), out)
        except Exception:  # noqa  (a file that does not compile is somebody else's problem)
            pass
    for name, mod in list(sys.modules.items()):
        f = getattr(mod, "__file__", None) or ""
        if not (name == "btc_hd_wallet" or name.startswith("btc_hd_wallet.")) or not os.path.abspath(f).startswith(pkg):
            continue
        for k, v in list(vars(mod).items()):
            if k.startswith("__"):
                continue
            _add_name(k, out)
            _add(v, out)
            if isinstance(v, type) and getattr(v, "__module__", "") == name:
                for ck, cv in list(vars(v).items()):
                    if not ck.startswith("__"):
                        _add_name(ck, out)
                        _add(cv, out)
            if callable(v) and hasattr(v, "cache_parameters"):
                try:
                    _add(v.cache_parameters().get("maxsize"), out)
                except Exception:  # noqa
                    pass
    _CACHE[repo_dir] = out
    return out


_BASE = None


def baseline():
    """Integers written down in the package at the pinned commit (+ fix commits), committed as corpus/baseline_ints.json.  A
    budget hint only: thresholds that were ALREADY there (10^6-sized test vectors) get a small quick-tier budget and their
    full treatment in the thorough tier; thresholds a change introduces get the full quick-tier budget."""
    global _BASE
    if _BASE is None:
        import json
        try:
            _BASE = set(json.load(open(os.path.join(os.path.dirname(os.path.dirname(os.path.abspath(__file__))), "corpus", "baseline_ints.json")))["ints"])
        except Exception:  # noqa
            _BASE = set()
    return _BASE


def sizes(repo_dir, lo=257, hi=1 << 22):
    """Harvested numbers that could be a row count / capacity / byte length threshold."""
    return sorted(k for k in ints(repo_dir) if lo <= k <= hi)


def around(k, wide=True):
    """Workload sizes aimed at a threshold k (exclusive / inclusive confusions, remainders, second batch)."""
    out = [k - 1, k, k + 1, k + 3]
    if wide:
        out += [2 * k, 2 * k + 1]
    return [x for x in out if x > 0]


def words32(repo_dir):
    """Harvested numbers that fit a 4-byte version prefix and are not tiny."""
    return sorted(k for k in ints(repo_dir) if (1 << 20) <= k < (1 << 32))
