"""pytest plugin: run the repository's own test-suite with every probe on.

    PYTHONPATH=/verif:/verif/.deps python -m pytest -p vpkg.suiteprobe tests

A probe that fires here is either too strict or a defect the tests do not
assert; each witness is read before anything is relaxed.  Results are written
to $VP_SUITE_OUT (default /verif/.run/suiteprobe.json).
"""
import json
import os

from .core import Ctx, load_repo

_ctx = None
_insts = []


def pytest_configure(config):
    global _ctx
    load_repo()
    _ctx = Ctx("SUITE", "quick", 0, 0, 1)
    from .checks import c01, c02, c03, c04, c05, c09
    _insts.append(c01.install_probes(_ctx)[0])
    _insts.append(c02.install_probes(_ctx)[0])
    _insts.append(c03.install_probes(_ctx))
    _insts.append(c04.install_probes(_ctx))
    _insts.append(c05.install_probes(_ctx))
    _insts.append(c09.install_probes(_ctx))


def pytest_sessionfinish(session, exitstatus):
    for i in reversed(_insts):
        i.remove()
    res = _ctx.result()
    out = os.environ.get("VP_SUITE_OUT", os.path.join(os.path.dirname(os.path.dirname(os.path.abspath(__file__))), ".run", "suiteprobe.json"))
    os.makedirs(os.path.dirname(out), exist_ok=True)
    json.dump({"monitors": res["monitors"], "violations": res["violations"], "mech_counts": res["mech_counts"]}, open(out, "w"), indent=1)
    tr = session.config.pluginmanager.get_plugin("terminalreporter")
    lines = ["vpkg probes under the repository's suite:"]
    for k in sorted(res["monitors"]):
        m = res["monitors"][k]
        lines.append("  %-40s reached=%d agreed=%d disagreed=%d" % (k, m["reached"], m["agreed"], m["disagreed"]))
    for v in res["violations"][:10]:
        lines.append("  PROBE DISAGREEMENT %s %s case=%s" % (v["monitor"], v["mech"], json.dumps(v["case"])[:200]))
    if tr:
        for ln in lines:
            tr.write_line(ln)
