"""Check driver: deps -> oracle self-test -> sharded workers -> merge ->
known-findings classification -> evidence -> verdict.

exit 0  held (possibly with KNOWN-FINDING lines)
exit 1  VIOLATION property=<id> replay=<path>
exit 2  INCONCLUSIVE property=<id> reason=...
"""
import argparse
import fcntl
import importlib
import json
import os
import shutil
import subprocess
import sys
import time

VERIF = os.path.dirname(os.path.dirname(os.path.abspath(__file__)))
DEPS = os.path.join(VERIF, ".deps")
RUN = os.path.join(VERIF, ".run")
PY = os.environ.get("VP_PYTHON", "/venv/bin/python")
WHEELS = "/opt/veriftools/wheels"
DEP_PKGS = ["icontract", "numpy", "jsonschema"]


def ensure_deps(verbose=False):
    os.makedirs(RUN, exist_ok=True)
    marker = os.path.join(DEPS, ".ok")
    if os.path.exists(marker):
        return True
    lock = open(os.path.join(RUN, "deps.lock"), "w")
    fcntl.flock(lock, fcntl.LOCK_EX)
    try:
        if os.path.exists(marker):
            return True
        cmd = [PY, "-m", "pip", "install", "--quiet", "--no-index", "--find-links", WHEELS,
               "--target", DEPS, "--upgrade"] + DEP_PKGS
        p = subprocess.run(cmd, capture_output=True, text=True, timeout=900)
        if p.returncode != 0:
            sys.stderr.write(p.stdout + p.stderr)
            return False
        open(marker, "w").write("ok\n")
        return True
    finally:
        fcntl.flock(lock, fcntl.LOCK_UN)
        lock.close()


def worker_env(repo):
    env = dict(os.environ)
    env["PYTHONPATH"] = os.pathsep.join([VERIF, DEPS])
    env["PYTHONHASHSEED"] = "0"
    env["PYTHONDONTWRITEBYTECODE"] = "1"
    env["VP_REPO"] = repo
    env["PIP_NO_INDEX"] = "1"
    return env


def load_findings():
    p = os.path.join(VERIF, "known_findings.json")
    if not os.path.exists(p):
        return {}
    data = json.load(open(p))
    return {f["key"]: f for f in data.get("findings", [])}


def hash_seed(seed, shard):
    """String-hash configuration of a shard: fixed (so a run is reproducible) but not the same everywhere, so that code whose
    result depends on set / dict-of-str iteration order meets several orders."""
    return str((seed * 7 + shard) % 6)


def interpreter_optimize(seed, shard):
    return (shard + seed) % 2


def run_workers(prop, tier, seed, nshards, repo, timeout, outdir, replay=None, extra_env=None, only_shards=None):
    procs = []
    for sh in range(nshards):
        if only_shards is not None and sh not in only_shards:
            continue
        env = worker_env(repo)
        env["PYTHONHASHSEED"] = hash_seed(seed, sh)
        env["VP_DEADLINE_S"] = str(max(30, int(timeout) - 45))   # the shard reports what it has a little before the watchdog
        # CONFIGURATION dimension: one shard in four sees an OpenSSL that does not offer RIPEMD-160 to hashlib
        if (sh + seed) % 4 == 2:
            env["VP_NO_OSSL_RIPEMD"] = "1"
        # CONFIGURATION dimension: one shard in four runs inside an application that has switched DEBUG logging on (root logger
        # at DEBUG with a handler that discards): code behind `log.isEnabledFor(DEBUG)` runs there
        if (sh + seed) % 4 == 1:
            env["VP_DEBUG_LOGGING"] = "1"
        if extra_env:
            env.update(extra_env)
            env["VP_EXTRA_ENV"] = json.dumps(extra_env, sort_keys=True)
        if replay:
            try:
                v = json.load(open(replay))
                env["PYTHONHASHSEED"] = hash_seed(int(v.get("seed", 0)), int(v.get("shard", 0)))
                env.pop("VP_NO_OSSL_RIPEMD", None)
                env.pop("VP_DEBUG_LOGGING", None)
                if v.get("debug_logging"):
                    env["VP_DEBUG_LOGGING"] = "1"
                if v.get("no_ossl_ripemd"):
                    env["VP_NO_OSSL_RIPEMD"] = "1"
                if v.get("extra_env"):
                    env.update(json.loads(v["extra_env"]))
                    env["VP_EXTRA_ENV"] = v["extra_env"]
            except Exception:  # noqa
                pass
        out = os.path.join(outdir, "shard%02d.json" % sh)
        if os.path.exists(out):
            os.remove(out)
        # CONFIGURATION dimension: odd shards run the interpreter with assertions stripped (python -O, what PYTHONOPTIMIZE=1
        # gives a container image): validation written as `assert`, or work done inside an assert, is gone there
        optimize = interpreter_optimize(seed, sh)
        if replay:
            try:
                optimize = int(json.load(open(replay)).get("optimize", 0))
            except Exception:  # noqa
                optimize = 0
        cmd = [PY] + (["-O"] if optimize else []) + ["-m", "vpkg.worker", prop, "--tier", tier, "--seed", str(seed),
                                                      "--shard", str(sh), "--nshards", str(nshards), "--out", out]
        if replay:
            cmd += ["--replay", replay]
        log = open(os.path.join(outdir, "shard%02d.log" % sh), "w")
        procs.append((sh, out, subprocess.Popen(cmd, env=env, cwd=VERIF, stdout=log, stderr=subprocess.STDOUT), log))
    deadline = time.time() + timeout
    results, problems = [], []
    for sh, out, p, log in procs:
        try:
            p.wait(timeout=max(1, deadline - time.time()))
        except subprocess.TimeoutExpired:
            p.kill()
            p.wait()
            problems.append("shard %d hit the %ds wall-clock watchdog" % (sh, timeout))
            log.close()
            continue
        log.close()
        if not os.path.exists(out):
            tail = open(os.path.join(outdir, "shard%02d.log" % sh)).read()[-800:]
            problems.append("shard %d exited %s without result: %s" % (sh, p.returncode, tail))
            continue
        results.append(json.load(open(out)))
    return results, problems


def merge(results):
    mons, cells, digests, samples, classes, viol, mech_counts, extra, inconc = {}, set(), set(), [], {}, [], {}, {}, []
    for r in results:
        for k, v in r["monitors"].items():
            m = mons.setdefault(k, {"reached": 0, "agreed": 0, "disagreed": 0})
            for kk in m:
                m[kk] += v[kk]
        cells.update(r["cells"])
        digests.update(r["digests"])
        extra["cases_beyond_distinct_cap"] = extra.get("cases_beyond_distinct_cap", 0) + r.get("digest_overflow", 0)
        for k, v in r["classes"].items():
            classes[k] = classes.get(k, 0) + v
        viol.extend(r["violations"])
        for k, v in r["mech_counts"].items():
            mech_counts[k] = mech_counts.get(k, 0) + v
        inconc.extend(r["inconclusive"])
        for k, v in r["extra"].items():
            if isinstance(v, (int, float)) and not isinstance(v, bool):
                extra[k] = extra.get(k, 0) + v
            elif isinstance(v, list):
                cur = extra.setdefault(k, [])
                for x in v:
                    if x not in cur and len(cur) < 400:
                        cur.append(x)
            elif isinstance(v, dict):
                cur = extra.setdefault(k, {})
                for kk, vv in v.items():
                    if isinstance(vv, (int, float)) and not isinstance(vv, bool):
                        cur[kk] = cur.get(kk, 0) + vv
                    else:
                        cur.setdefault(kk, vv)
            else:
                extra.setdefault(k, v)
    # samples: round-robin across shards
    i = 0
    while len(samples) < 12:
        added = False
        for r in results:
            if i < len(r["samples"]) and len(samples) < 12:
                samples.append(r["samples"][i])
                added = True
        if not added:
            break
        i += 1
    return mons, cells, digests, samples, classes, viol, mech_counts, extra, inconc


def main(argv=None):
    ap = argparse.ArgumentParser()
    ap.add_argument("prop")
    ap.add_argument("--tier", default=os.environ.get("VERIF_TIER", "quick"))
    ap.add_argument("--seed", type=int, default=int(os.environ.get("VERIF_SEED", "0") or 0))
    ap.add_argument("--shards", type=int, default=None)
    ap.add_argument("--replay", default=None)
    ap.add_argument("--repo", default=os.environ.get("VP_REPO", "/repo"))
    ap.add_argument("--no-evidence", action="store_true")
    ap.add_argument("--rundir", default=None, help="scratch dir for shard outputs and witnesses (default /verif/.run)")
    ap.add_argument("--backend", default="native", choices=["native", "standin"],
                    help="'standin': run with the pure-Python pysecp256k1 stand-in so that the libsecp arms execute; OBSERVATION ONLY "
                         "(no evidence, no VIOLATION lines, exit 0)")
    a = ap.parse_args(argv)
    if a.backend == "standin":
        os.environ["VP_BACKEND"] = "standin"
        a.no_evidence = True
        a.rundir = a.rundir or os.path.join(RUN, "standin")
    rundir = os.path.abspath(a.rundir) if a.rundir else RUN
    os.makedirs(rundir, exist_ok=True)
    prop = a.prop.upper()
    tier = a.tier if a.tier in ("quick", "thorough") else "quick"
    t0 = time.time()

    def inconclusive(reason, code=2):
        print("INCONCLUSIVE property=%s reason=%s" % (prop, reason))
        sys.exit(code)

    if not ensure_deps():
        inconclusive("offline install of %s into .deps failed" % DEP_PKGS)
    sys.path[:0] = [VERIF, DEPS]
    # oracle self-test
    try:
        from vpkg.ref import selftest
        n_self = selftest.run(full=False)
    except Exception as e:  # noqa
        inconclusive("oracle self-test failed: %s: %s" % (type(e).__name__, e))
    try:
        mod = importlib.import_module("vpkg.checks." + prop.lower())
    except ImportError as e:
        inconclusive("no check module for %s: %s" % (prop, e))
    nshards = a.shards or mod.SHARDS.get(tier, 8)
    if a.replay:
        nshards = 1
    outdir = os.path.join(rundir, prop, "replay" if a.replay else tier)
    shutil.rmtree(outdir, ignore_errors=True)
    os.makedirs(outdir, exist_ok=True)
    timeout = mod.TIMEOUT.get(tier, 1800) if hasattr(mod, "TIMEOUT") else (900 if tier == "quick" else 7200)
    results, problems = run_workers(prop, tier, a.seed, nshards, a.repo, timeout, outdir, replay=a.replay)
    # ENVIRONMENT dimension: every environment variable the repository's own code was seen looking up (worker.EnvTaint) is a
    # configuration input; two shards are run again with each such variable set
    if not a.replay:
        looked_up = []
        for r in results:
            for name in r.get("extra", {}).get("environment_variables_looked_up_by_repo_code", []):
                if name not in looked_up:
                    looked_up.append(name)
        for ni, name in enumerate(looked_up[:4]):
            for vi, val in enumerate(("1", "true")):
                sub = os.path.join(outdir, "env-%d-%d" % (ni, vi))
                os.makedirs(sub, exist_ok=True)
                r2, p2 = run_workers(prop, tier, a.seed, nshards, a.repo, timeout, sub, extra_env={name: val}, only_shards={0, 1})
                results.extend(r2)
                problems.extend(p2)
    mons, cells, digests, samples, classes, viol, mech_counts, extra, inconc = merge(results)
    problems.extend(inconc)

    # required monitors (deciding monitors must have been reached)
    if not a.replay:
        req = getattr(mod, "REQUIRED", {})
        if isinstance(req.get(tier), dict):
            req = req[tier]
        for name, minimum in req.items():
            got = mons.get(name, {"reached": 0})["reached"]
            if got < minimum:
                problems.append("deciding monitor %s reached %d < %d" % (name, got, minimum))

    # anchor reach: the functions the property is anchored in must have been entered (sys.monitoring PY_START)
    if not a.replay:
        entered = set(extra.get("functions_entered", []))
        # informational only: internal names may legitimately change in a refactoring; what decides 'inconclusive' is
        # whether the monitors driven through the public API were reached (REQUIRED)
        extra["anchors_expected"] = list(getattr(mod, "ANCHORS", []))
        extra["anchors_not_entered"] = [f for f in getattr(mod, "ANCHORS", []) if f not in entered]

    # classify violations
    findings = load_findings()
    known_hit, new_viol = {}, []
    for v in viol:
        f = findings.get(v["mech"])
        if f and f.get("status") == "known" and f.get("property") == prop:
            known_hit.setdefault(v["mech"], []).append(v)
        else:
            new_viol.append(v)
    vdir = os.path.join(rundir, prop, "violations")
    os.makedirs(vdir, exist_ok=True)
    lines = []
    seen_mech = set()
    for i, v in enumerate(new_viol[:200]):
        p = os.path.join(vdir, "%s-%s-%03d.json" % (tier, a.seed, i))
        json.dump(v, open(p, "w"), indent=1)
        if v["mech"] not in seen_mech and len(seen_mech) < 12:   # one line per mechanism
            seen_mech.add(v["mech"])
            lines.append("VIOLATION property=%s replay=%s" % (prop, p))
    for mech, vs in known_hit.items():
        print("KNOWN-FINDING: property=%s %s [%s; %d occurrences this run]" %
              (prop, findings[mech]["what"], mech, mech_counts.get(mech, len(vs))))

    wall = time.time() - t0
    evaluations = sum(m["reached"] for m in mons.values())
    if not a.no_evidence and not a.replay:
        ev = {
            "property_id": prop, "tier": tier, "seed": a.seed,
            "level": mod.LEVEL,
            "coverage": {
                "evaluations": evaluations,
                "distinct_nontrivial": len(digests),
                "rule": mod.RULE,
                "samples": samples,
                "coverage_cells": len(cells),
                "cells": sorted(cells)[:400],
                "monitors": mons,
                "input_classes": classes,
                "observed": extra,
                "shards": nshards,
                "oracle_selftest_assertions": n_self,
                "known_findings_hit": {k: mech_counts.get(k, 0) for k in known_hit},
                "trusted_base": ["CPython 3.12 integers", "hashlib SHA-256/SHA-512/RIPEMD-160 (OpenSSL)",
                                 "unicodedata", "json", "strace (where used)", "vpkg.ref reference model (self-tested against published vectors)"],
                "exhaustive": bool(getattr(mod, "EXHAUSTIVE", False)),
            },
            "assumptions": getattr(mod, "ASSUMPTIONS", []),
            "wall_s": round(wall, 2),
            "violations": len(new_viol),
            "verdict": "violated" if new_viol else ("inconclusive" if problems else "held"),
            "inconclusive_reasons": problems[:20],
        }
        os.makedirs(os.path.join(VERIF, "evidence"), exist_ok=True)
        tmp = os.path.join(VERIF, "evidence", prop + ".json.tmp")
        json.dump(ev, open(tmp, "w"), indent=1, sort_keys=True)
        os.replace(tmp, os.path.join(VERIF, "evidence", prop + ".json"))

    summary = "%s tier=%s seed=%d shards=%d evaluations=%d distinct=%d cells=%d wall=%.1fs" % (
        prop, tier, a.seed, nshards, evaluations, len(digests), len(cells), wall)
    if a.backend == "standin":
        shown = set()
        for v in new_viol:
            if v["mech"] in shown:
                continue
            shown.add(v["mech"])
            print("OBSERVATION(libsecp256k1 stand-in configuration, not a verdict) property=%s mech=%s case=%s expected=%s observed=%s" % (
                prop, v["mech"], json.dumps(v["case"])[:300], json.dumps(v["expected"])[:160], json.dumps(v["observed"])[:200]))
        for pr in problems[:5]:
            print("NOTE(stand-in) " + pr.replace("\n", " ")[:300])
        print("STANDIN-DONE %s disagreements=%d backend=%s" % (summary, len(new_viol), extra.get("backend")))
        sys.exit(0)
    if new_viol:
        for ln in lines:
            print(ln)
        shown = set()
        for v in new_viol:
            if v["mech"] in shown or len(shown) >= 8:
                continue
            shown.add(v["mech"])
            print("  witness: monitor=%s mech=%s case=%s expected=%s observed=%s" % (
                v["monitor"], v["mech"], json.dumps(v["case"])[:300], json.dumps(v["expected"])[:200], json.dumps(v["observed"])[:200]))
        print("VIOLATED " + summary)
        sys.exit(1)
    if problems:
        print("INCONCLUSIVE property=%s reason=%s" % (prop, " | ".join(p.replace("\n", " ")[:400] for p in problems[:5])))
        print("INCONCLUSIVE " + summary)
        sys.exit(2)
    for k in sorted(mons):
        m = mons[k]
        print("  monitor %-44s reached=%-8d agreed=%-8d disagreed=%d" % (k, m["reached"], m["agreed"], m["disagreed"]))
    print("HELD " + summary)
    sys.exit(0)


if __name__ == "__main__":
    main()
