"""The hostile (or merely careless) caller: whatever container a public function RETURNS belongs to the caller, who may
edit it in place.  If later answers change because of such an edit, the function handed out a reference to state it still
uses (a cached list, the internal table, an earlier result).  The unchanged code returns fresh containers everywhere, so
scribbling is a no-op there; the checks scribble between two identical requests and judge the second one as usual."""


def scribble(obj, rnd, extra=None, depth=0):
    """Edit a returned container in place (recursively, a few levels).  Returns a tag describing what was done."""
    how = rnd.choice(["extend", "clear", "reverse", "poke", "pop"])
    try:
        if isinstance(obj, list):
            if depth < 2 and obj and isinstance(obj[0], (list, dict, bytearray)) and rnd.random() < 0.5:
                return "nested:" + scribble(obj[rnd.randrange(len(obj))], rnd, extra, depth + 1)
            if how == "extend":
                obj.extend(list(extra) if extra is not None else [0, 1, 31])
            elif how == "clear":
                del obj[:]
            elif how == "reverse":
                obj.reverse()
            elif how == "pop" and obj:
                obj.pop(0)
            elif obj:
                i = rnd.randrange(len(obj))
                obj[i] = (obj[i] ^ 1) if isinstance(obj[i], int) and not isinstance(obj[i], bool) else None
            else:
                obj.append(0)
            return "list." + how
        if isinstance(obj, dict):
            if depth < 2 and obj and rnd.random() < 0.5:
                k = rnd.choice(sorted(obj, key=str))
                if isinstance(obj[k], (list, dict, bytearray)):
                    return "nested:" + scribble(obj[k], rnd, extra, depth + 1)
            if how in ("clear",):
                obj.clear()
            elif how in ("pop", "reverse") and obj:
                obj.pop(rnd.choice(sorted(obj, key=str)))
            else:
                obj["scribble"] = "scribble"
                for k in list(obj):
                    if isinstance(obj[k], str):
                        obj[k] = "REDACTED"
            return "dict." + how
        if isinstance(obj, bytearray):
            for i in range(len(obj)):
                obj[i] = 0
            return "bytearray.zero"
        if isinstance(obj, set):
            obj.clear()
            return "set.clear"
    except Exception as e:  # noqa  (immutable / odd container: nothing to scribble on)
        return "unscribblable:" + type(e).__name__
    return "immutable"
