"""Fault / observation injectors used by the checks.

  PRFStub          chosen-output HMAC failpoint on bip32.hmac_sha512 / bip85.hmac_sha512
  EntropyTap       os.urandom / random._urandom interposer (observe | tape)
  AuditLog         sys.addaudithook recorder (file writes, process spawn, sockets)
  Reach            sys.monitoring PY_START reach tracker for btc_hd_wallet functions
  YieldInjector    sys.monitoring LINE callback doing sleep(0) inside btc_hd_wallet code
"""
import os
import random as _random
import sys
import threading
import time


# ------------------------------------------------------------------ PRF stub
class PRFStub:
    """Substitute `hmac_sha512` in the given repo modules (module globals are
    looked up at call time).  `plan(key, msg)` returns 64 bytes or None to
    fall through to the real function.  Every call is recorded."""

    def __init__(self, modules, plan=None):
        self.modules = modules
        self.plan = plan
        self.calls = []
        self._saved = []

    def __enter__(self):
        import hmac as _hmac
        import hashlib as _hashlib
        self._in_stub = False
        for m in self.modules:
            if not hasattr(m, "hmac_sha512"):
                continue            # (the module may reach the PRF another way after a refactoring: see the hmac.new layer below)
            real = m.hmac_sha512
            self._saved.append((m, real))

            def stub(key=None, msg=None, _real=real, **kw):
                out = self.plan(key, msg) if self.plan else None
                substituted = out is not None
                if out is None:
                    self._in_stub = True
                    try:
                        out = _real(key=key, msg=msg)
                    finally:
                        self._in_stub = False
                self.calls.append((bytes(key), bytes(msg), bytes(out), substituted))
                return out
            m.hmac_sha512 = stub
        # second layer: code that calls hmac.new(..., sha512) itself (not through the module global) while executing
        # inside the listed modules is served by the same plan.  The oracle never uses the hmac module.
        modfiles = tuple(getattr(m, "__file__", "") or "" for m in self.modules)
        real_new = _hmac.new
        self._real_new = real_new

        class _Fixed:
            def __init__(self, out):
                self._o = out
                self.digest_size = 64

            def digest(self):
                return self._o

            def hexdigest(self):
                return self._o.hex()

            def update(self, _m):
                raise NotImplementedError("PRF stub: incremental update not modelled")

        def new(key, msg=None, digestmod=""):
            if self._in_stub or not self.plan or msg is None:
                return real_new(key, msg, digestmod)
            name = digestmod if isinstance(digestmod, str) else getattr(digestmod, "__name__", "")
            if "sha512" not in name.lower():
                return real_new(key, msg, digestmod)
            # the call must come from one of the listed modules, directly or through a thin helper (<= 3 frames up)
            f, hit = sys._getframe(1), False
            for _ in range(3):
                if f is None:
                    break
                if f.f_code.co_filename in modfiles:
                    hit = True
                    break
                f = f.f_back
            if not hit:
                return real_new(key, msg, digestmod)
            out = self.plan(key, msg)
            if out is None:
                return real_new(key, msg, digestmod)
            self.calls.append((bytes(key), bytes(msg), bytes(out), True))
            return _Fixed(out)
        _hmac.new = new
        return self

    def __exit__(self, *exc):
        import hmac as _hmac
        for m, real in self._saved:
            m.hmac_sha512 = real
        self._saved = []
        _hmac.new = self._real_new
        return False


# ------------------------------------------------------------------ entropy
class EntropyTap:
    """Interpose on the two Python-level doors to the OS CSPRNG.

    mode 'observe': pass real bytes through, log request sizes.
    mode 'tape'   : serve bytes from `tape` (bytes); running dry raises.
    """

    def __init__(self, mode="observe", tape=b""):
        self.mode = mode
        self.tape = bytearray(tape)
        self.requests = []   # (door, nbytes)
        self._saved = None

    def _serve(self, door, n, real):
        self.requests.append((door, n))
        if self.mode == "observe":
            return real(n)
        if len(self.tape) < n:
            raise RuntimeError("entropy tape exhausted")
        out = bytes(self.tape[:n])
        del self.tape[:n]
        return out

    def __enter__(self):
        real_os = os.urandom
        real_rnd = _random._urandom
        self._saved = (real_os, real_rnd)
        os.urandom = lambda n: self._serve("os.urandom", n, real_os)
        _random._urandom = lambda n: self._serve("random._urandom", n, real_rnd)
        return self

    def __exit__(self, *exc):
        os.urandom, _random._urandom = self._saved
        return False

    @property
    def total(self):
        return sum(n for _d, n in self.requests)


# ------------------------------------------------------------------ audit
class AuditLog:
    """One process-wide audit hook (hooks cannot be removed); `active` gates
    recording.  Records writes/creates, removals, renames, spawns, connects."""
    _installed = None

    def __init__(self):
        self.events = []
        self.active = False

    @classmethod
    def get(cls):
        if cls._installed is None:
            inst = cls()
            sys.addaudithook(inst._hook)
            cls._installed = inst
        return cls._installed

    def _hook(self, event, args):
        if not self.active:
            return
        try:
            if event == "open":
                path, mode, flags = args[0], args[1], args[2]
                writing = False
                if isinstance(mode, str) and any(c in mode for c in "wax+"):
                    writing = True
                if isinstance(flags, int) and flags & (os.O_WRONLY | os.O_RDWR | os.O_CREAT | os.O_APPEND | os.O_TRUNC):
                    writing = True
                if writing:
                    self.events.append(("open-write", str(path), str(mode), flags))
                else:
                    self.events.append(("open-read", str(path)))
            elif event in ("os.remove", "os.rename", "os.mkdir", "os.rmdir", "os.truncate",
                           "os.symlink", "os.link", "shutil.rmtree", "os.chmod"):
                self.events.append((event, str(args[0])) + ((str(args[1]),) if event == "os.rename" and len(args) > 1 else ()))
            elif event in ("subprocess.Popen", "os.system", "os.exec", "os.posix_spawn", "os.fork"):
                self.events.append((event, str(args[:1])))
            elif event in ("socket.connect", "socket.bind", "socket.sendto"):
                self.events.append((event, str(args[1:2])))
        except Exception:  # never let the monitor break the program
            pass

    def window(self):
        return _AuditWindow(self)


class _AuditWindow:
    def __init__(self, log):
        self.log = log
        self.start = 0
        self.events = []

    def __enter__(self):
        self.start = len(self.log.events)
        self.log.active = True
        return self

    def __exit__(self, *exc):
        self.log.active = False
        self.events = self.log.events[self.start:]
        return False

    def writes(self):
        return [e for e in self.events if e[0] == "open-write"]

    def effects(self):
        return [e for e in self.events if e[0] != "open-read"]


# ------------------------------------------------------------------ sys.monitoring
def _repo_prefix():
    import btc_hd_wallet
    return os.path.dirname(os.path.realpath(btc_hd_wallet.__file__)) + os.sep


class Reach:
    """Set of btc_hd_wallet functions entered (PY_START, DISABLE after first
    hit => ~zero cost)."""
    TOOL = 3

    def __init__(self):
        self.seen = set()
        self.prefix = _repo_prefix()
        self.on = False

    def start(self):
        mon = sys.monitoring
        try:
            mon.use_tool_id(self.TOOL, "vp-reach")
        except ValueError:
            return self
        E = mon.events

        def cb(code, off):
            fn = code.co_filename
            if fn.startswith(self.prefix):
                self.seen.add("%s:%s" % (os.path.basename(fn)[:-3], code.co_qualname))
            return mon.DISABLE
        mon.register_callback(self.TOOL, E.PY_START, cb)
        mon.set_events(self.TOOL, E.PY_START)
        self.on = True
        return self

    def stop(self):
        if self.on:
            mon = sys.monitoring
            mon.set_events(self.TOOL, 0)
            mon.register_callback(self.TOOL, mon.events.PY_START, None)
            mon.free_tool_id(self.TOOL)
            self.on = False
        return sorted(self.seen)


class YieldInjector:
    """LINE-level yield injection inside btc_hd_wallet code: with seeded
    probability call time.sleep(0) so that the GIL is handed to another thread
    *between any two statements* of the code under test.  Also records where
    each thread was when a switch was injected, giving an interleaving
    signature."""
    TOOL = 4

    def __init__(self, seed, prob=0.05, only_functions=None, files=None):
        self.files = files     # basenames (without .py) in which to inject; others are DISABLEd after first hit
        self.rnd = _random.Random(seed)
        self.prob = prob
        self.prefix = _repo_prefix()
        self.only = only_functions
        self.lines = 0
        self.yields = 0
        self.yield_sites = {}
        self.trace = []          # (thread ident index, site) at each injected yield
        self._tid = {}
        self._lock = threading.Lock()
        self.on = False
        self.last_thread = None
        self.switches_in_repo = 0

    def start(self):
        mon = sys.monitoring
        mon.use_tool_id(self.TOOL, "vp-yield")
        E = mon.events
        prefix = self.prefix

        def cb(code, line):
            if not code.co_filename.startswith(prefix):
                return mon.DISABLE
            if self.files is not None and os.path.basename(code.co_filename)[:-3] not in self.files:
                return mon.DISABLE
            if self.only is not None and code.co_name not in self.only:
                return None
            me = threading.get_ident()
            with self._lock:
                self.lines += 1
                if self.last_thread is not None and self.last_thread != me:
                    self.switches_in_repo += 1
                self.last_thread = me
                do = self.rnd.random() < self.prob
                if do:
                    self.yields += 1
                    site = "%s:%d" % (code.co_name, line)
                    self.yield_sites[site] = self.yield_sites.get(site, 0) + 1
                    t = self._tid.setdefault(me, len(self._tid))
                    if len(self.trace) < 20000:
                        self.trace.append((t, site))
            if do:
                time.sleep(0)
            return None
        mon.register_callback(self.TOOL, E.LINE, cb)
        mon.set_events(self.TOOL, E.LINE)
        mon.restart_events()
        self.on = True
        return self

    def stop(self):
        if self.on:
            mon = sys.monitoring
            mon.set_events(self.TOOL, 0)
            mon.register_callback(self.TOOL, mon.events.LINE, None)
            mon.free_tool_id(self.TOOL)
            self.on = False

    def signature(self):
        import hashlib
        h = hashlib.sha256()
        for t, s in self.trace:
            h.update(("%d@%s;" % (t, s)).encode())
        return h.hexdigest()[:16]


# ------------------------------------------------------------------ deterministic single preemption
class Preempter:
    """Deterministic scheduler for two threads: thread A runs operation a; at its k-th LINE event inside btc_hd_wallet
    (the given files only) it is parked, thread B runs operation b to completion, then A resumes.  k = None: never park
    (used to count A's statements).  This enumerates EVERY single-preemption interleaving of (a, b) at statement
    granularity instead of sampling them."""
    TOOL = 5

    def __init__(self, k, files):
        self.k = k
        self.files = tuple(files)
        self.count = 0
        self.a_ident = None
        self.go_b = threading.Event()
        self.b_done = threading.Event()
        self.parked_at = None
        self.prefix = _repo_prefix()

    def start(self):
        import os
        mon = sys.monitoring
        mon.use_tool_id(self.TOOL, "vp-preempt")

        def cb(code, line):
            fn = code.co_filename
            if not fn.startswith(self.prefix) or os.path.basename(fn)[:-3] not in self.files:
                return mon.DISABLE
            if threading.get_ident() != self.a_ident:
                return None
            self.count += 1
            if self.k is not None and self.count == self.k:
                self.parked_at = "%s:%d" % (code.co_name, line)
                self.go_b.set()
                self.b_done.wait(60)
            return None
        mon.register_callback(self.TOOL, mon.events.LINE, cb)
        mon.set_events(self.TOOL, mon.events.LINE)
        mon.restart_events()

    def stop(self):
        mon = sys.monitoring
        mon.set_events(self.TOOL, 0)
        mon.register_callback(self.TOOL, mon.events.LINE, None)
        mon.free_tool_id(self.TOOL)


def run_preempted(fa, fb, k, files, timeout=120):
    """Thread A runs fa(); at its k-th statement inside the given repo files it is parked, thread B runs fb() to completion,
    A resumes.  k=None: fa alone (counting run; fb is not started).  Returns dict(a=, b=, errors=[(who, exc)], site=, count=,
    finished=bool)."""
    pre = Preempter(k, files)
    res, errs = {}, []

    def run_a():
        pre.a_ident = threading.get_ident()
        try:
            res["a"] = fa()
        except BaseException as e:  # noqa
            errs.append(("a", e))
        finally:
            pre.go_b.set()

    def run_b():
        pre.go_b.wait(timeout)
        try:
            res["b"] = fb()
        except BaseException as e:  # noqa
            errs.append(("b", e))
        finally:
            pre.b_done.set()
    ta = threading.Thread(target=run_a)
    tb = threading.Thread(target=run_b) if k is not None else None
    pre.start()
    try:
        if tb is not None:
            tb.start()
        ta.start()
        ta.join(timeout)
        if tb is not None:
            tb.join(timeout)
    finally:
        pre.stop()
    finished = not ta.is_alive() and (tb is None or not tb.is_alive())
    return {"a": res.get("a"), "b": res.get("b"), "errors": errs, "site": pre.parked_at, "count": pre.count, "finished": finished}


# ------------------------------------------------------------------ process-environment configurations
_FILE_CLASS = {}
_PREFIXES = {}


def _file_class(fn):
    """'stdlib' | 'repo' | 'other' for a code object's file name (cached)."""
    c = _FILE_CLASS.get(fn)
    if c is None:
        if not _PREFIXES:
            import sysconfig
            _PREFIXES["repo"] = os.path.join(os.path.realpath(os.environ.get("VP_REPO", "/repo")), "btc_hd_wallet") + os.sep
            _PREFIXES["stdlib"] = os.path.realpath(sysconfig.get_paths()["stdlib"]) + os.sep
        # only the PLUMBING between a direct look-up and the interposed door counts as transparent (os.getenv ->
        # Mapping.get -> __getitem__; hashlib.new): a look-up made by argparse, shutil, locale ... on their own behalf is
        # not the repository's look-up
        if fn in ("<frozen os>", "<frozen _collections_abc>") or os.path.basename(fn) in ("os.py", "_collections_abc.py", "hashlib.py"):
            c = "stdlib"
        else:
            rp = os.path.realpath(fn)
            c = "repo" if rp.startswith(_PREFIXES["repo"]) else "other"
        _FILE_CLASS[fn] = c
    return c


def _called_from_repo(depth=8):
    """True iff the nearest caller frame that is not standard-library code (os.py, _collections_abc.py, hashlib.py ...)
    executes a file of the repository under test (VP_REPO).  Frames of this harness (oracle, probes) are NOT repo code, so
    an oracle that runs inside a probe callback keeps the real behaviour."""
    f = sys._getframe(2)
    for _ in range(depth):
        if f is None:
            return False
        c = _file_class(f.f_code.co_filename)
        if c == "stdlib":
            f = f.f_back
            continue
        return c == "repo"
    return False


def no_openssl_ripemd160():
    """CONFIGURATION: an OpenSSL build / provider set-up that does not offer RIPEMD-160 to hashlib (stock OpenSSL 3.0
    without the legacy provider, FIPS-only set-ups): hashlib.new('ripemd160') raises ValueError and the name is missing
    from algorithms_available - but only as seen from the repository's own code, so that the oracle keeps its second
    RIPEMD-160 opinion.  Must be installed BEFORE the package is imported (a capability probe may run at import)."""
    import hashlib
    real_new = hashlib.new

    def new(name, *a, **kw):
        if isinstance(name, str) and name.lower().replace("-", "") in ("ripemd160", "rmd160") and _called_from_repo():
            raise ValueError("unsupported hash type %s" % name)
        return real_new(name, *a, **kw)
    hashlib.new = new

    class _Avail(set):
        def __contains__(self, item):
            if isinstance(item, str) and item.lower() in ("ripemd160", "rmd160") and _called_from_repo():
                return False
            return set.__contains__(self, item)
    hashlib.algorithms_available = _Avail(hashlib.algorithms_available)


class EnvTaint:
    """Records the NAMES of environment variables that the repository's own code looks up (os.environ[...] / .get /
    `in` / os.getenv all end in _Environ.__getitem__), at import time and later.  A library whose answers depend on the
    process environment has a configuration dimension the inputs cannot reach; the driver re-runs part of the workload with
    every looked-up variable set."""
    names = []
    _installed = False

    @classmethod
    def install(cls):
        if cls._installed:
            return
        cls._installed = True
        E = type(os.environ)
        real = E.__getitem__

        def getitem(self, key):
            try:
                if isinstance(key, str) and key not in cls.names and len(cls.names) < 32 and _called_from_repo():
                    cls.names.append(key)
            except Exception:  # noqa
                pass
            return real(self, key)
        E.__getitem__ = getitem


# ------------------------------------------------------------------ fast mode for history-length scenarios
class FastEC:
    """Makes ONE derivation cost tens of microseconds instead of milliseconds, so that scenarios whose only variable is the
    LENGTH of a history (10^5 .. 10^6 derivations on one parent, listings of 10^5 rows) fit into a check:
      * the PRF is stubbed with a constant output (PRFStub), so every child has the same key material (index, depth, path,
        parent link and all bookkeeping still differ), and
      * the third-party ecdsa entry points the library calls (SigningKey.from_string, VerifyingKey.from_string /
        from_public_point, PointJacobi.__add__) are memoised - same return values, no repository code is touched.
    Judgements made under FastEC compare the library with ITSELF (what a held object said before and says after, counts,
    order, path text, network tags), never with the reference model."""

    def __init__(self, modules, I=bytes([7]) * 64, variety=1):
        if variety > 1:
            # `variety` different PRF outputs chosen by the message (so by the child index): neighbouring children - and a
            # child and the one `variety`-coprime rows away - have DIFFERENT key material, which a listing that pairs the
            # material of one index with the number of another would otherwise hide; still only `variety` distinct scalars
            # ever reach the (memoised) curve arithmetic
            import hashlib
            import zlib
            table = []
            j = 0
            while len(table) < variety:
                d = hashlib.sha512(b"vp-fastec-%d" % j).digest()
                j += 1
                if 0 < int.from_bytes(d[:32], "big") < 0xFFFFFFFFFFFFFFFFFFFFFFFFFFFFFFFEBAAEDCE6AF48A03BBFD25E8CD0364141:
                    table.append(d)
            self.stub = PRFStub(modules, plan=lambda key, msg: table[zlib.crc32(bytes(msg)) % variety])
        else:
            self.stub = PRFStub(modules, plan=lambda key, msg: I)
        self._undo = []

    def __enter__(self):
        import ecdsa
        from ecdsa.ellipticcurve import PointJacobi

        def memo_classmethod(cls, name, keyf):
            raw = cls.__dict__[name]
            orig = raw.__func__
            cache = {}

            def f(c, *a, **kw):
                k = keyf(*a, **kw)
                r = cache.get(k)
                if r is None:
                    r = cache[k] = orig(c, *a, **kw)
                return r
            setattr(cls, name, classmethod(f))
            self._undo.append(lambda: setattr(cls, name, raw))

        def cn(c):
            return getattr(c, "name", None)
        memo_classmethod(ecdsa.SigningKey, "from_string", lambda string, curve=None, *a, **kw: (bytes(string), cn(curve)))
        memo_classmethod(ecdsa.VerifyingKey, "from_string", lambda string, curve=None, *a, **kw: (bytes(string), cn(curve)))
        memo_classmethod(ecdsa.VerifyingKey, "from_public_point", lambda point, curve=None, *a, **kw: (point.x(), point.y(), cn(curve)))
        orig_add = PointJacobi.__add__
        addc = {}

        def add(p, q):
            k = (id(p), id(q))
            r = addc.get(k)
            if r is None:
                res = orig_add(p, q)
                addc[k] = (res, p, q)       # (operands kept alive: their ids stay theirs)
                return res
            return r[0]
        PointJacobi.__add__ = add
        self._undo.append(lambda: setattr(PointJacobi, "__add__", orig_add))
        self.stub.__enter__()
        return self

    def __exit__(self, *exc):
        self.stub.__exit__(*exc)
        for u in reversed(self._undo):
            u()
        self._undo = []
        return False
