"""C04 - mnemonic sentences encode their entropy losslessly with a valid checksum."""
import hashlib

from .. import gen, probes
from ..ref import bip39 as rb39

from ..core import refused

PROP = "C04"
LEVEL = "exploration"
SHARDS = {"quick": 8, "thorough": 16}
TIMEOUT = {"quick": 900, "thorough": 7200}
THOROUGH_MULT = 30   # thorough budgets below are multiplied by this (sized for roughly five minutes on 16 cores)
REQUIRED = {"encode": 2000, "reject_size": 100, "whitespace_hex": 50, "bits_api": 10, "wordlist": 1}
ANCHORS = ['bip39:mnemonic_from_entropy', 'bip39:mnemonic_from_entropy_bits', 'base_wallet:BaseWallet.from_entropy_hex']
RULE = ("per allowed size: all-zero, all-one, walking-one and walking-zero over EVERY bit position (exhaustive, 2x960), "
        "1..ENT/8-1 leading zero bytes, checksum-straddling patterns, random; rejection: every other byte length 0..64, odd "
        "hex length, whitespace at start/middle/end, 0x prefix, underscores; word list compared element-wise with a "
        "digest-pinned copy; distinct = distinct (monitor, case) digests"
        " EXTENSIONS: + helper queries about the illegal size before the rejection, every rejection repeated three times")
LEVEL_TEXT = ("Every mnemonic_from_entropy / from_entropy_hex / mnemonic_from_entropy_bits call is judged by an independent "
              "integer-shift encoder AND an independent decoder (word -> 11-bit index -> entropy||checksum); sizes outside "
              "{16,20,24,28,32} bytes must raise. The embedded list must equal the official list (SHA-256 pinned).")
LEVEL_NOTE = ("Word list trusted via its published SHA-256 (2f5eed53...dbda) + structural checks; hashlib SHA-256 trusted. "
              "Whitespace-in-hex inputs may raise or return the right sentence for the decoded bytes (both lossless).")
TECHNIQUE = "runtime oracle (independent BIP39 encoder+decoder) on real calls, exhaustive walking-bit corpus"
ASSUMPTIONS = ["official english.txt digest recalled correctly (matches the committed copy and the repo list)"]
SIZES = (16, 20, 24, 28, 32)


def _check_sentence(sentence, ent_bytes):
    """Return list of problems for `sentence` as the encoding of ent_bytes."""
    bad = []
    if not isinstance(sentence, str):
        return [("type", "str", type(sentence).__name__)]
    words = sentence.split(" ")
    want_n = rb39.WORDS_FOR_ENT[len(ent_bytes) * 8]
    if len(words) != want_n:
        bad.append(("word_count", want_n, len(words)))
        return bad
    if any(w not in rb39.WORD_INDEX for w in words):
        bad.append(("unknown_word", None, [w for w in words if w not in rb39.WORD_INDEX][:3]))
        return bad
    e, ok = rb39.decode(words)
    if e != ent_bytes:
        bad.append(("decoded_entropy", ent_bytes, e))
    if not ok:
        bad.append(("checksum", "valid", "invalid"))
    if sentence != rb39.mnemonic(ent_bytes):
        bad.append(("sentence", rb39.mnemonic(ent_bytes), sentence))
    return bad


def judge_encode(ctx, case):
    import btc_hd_wallet.bip39 as b39
    from btc_hd_wallet.base_wallet import BaseWallet
    ent = case["entropy"]
    hx = ent.hex().upper() if case.get("upper") else ent.hex()
    try:
        if case.get("via") == "wallet":
            got = BaseWallet.from_entropy_hex(entropy_hex=hx).mnemonic
        else:
            got = b39.mnemonic_from_entropy(hx)
    except Exception as e:  # noqa
        return ctx.judge("encode", False, case, rb39.mnemonic(ent), e, cls="%d|%s" % (len(ent), case["tag"]),
                         outcome="raised", mech="C04.encode.raised")
    bad = _check_sentence(got, ent)
    return ctx.judge("encode", not bad, case, rb39.mnemonic(ent), bad, cls="%d|%s|%s" % (len(ent), case["tag"], case.get("via", "fn")),
                     mech="C04.encode." + (bad[0][0] if bad else ""))


def judge_reject_size(ctx, case):
    """Entropy whose byte length is not allowed must raise."""
    import btc_hd_wallet.bip39 as b39
    from btc_hd_wallet.base_wallet import BaseWallet
    hx = case["hex"]
    # read-only looking questions about this (illegal) size first - how long would its checksum / its sentence be? - must
    # not teach the module that the size is legal
    try:
        nbits = 4 * len("".join(hx.split()))
        qs = [lambda: b39.checksum_length(nbits), lambda: b39.mnemonic_sentence_length(nbits), lambda: b39.checksum_length(entropy_bits=nbits),
              lambda: b39.correct_entropy_bits_value(entropy_bits=nbits)]
        for q in (qs if nbits & 8 else qs[::-1]):
            try:
                q()
            except Exception:  # noqa
                pass
    except Exception:  # noqa
        pass
    # (the refusal must be stable: asked again straight away - a retry - it is refused again)
    if case.get("via") == "wallet":
        ok, got, outcome = refused(lambda: BaseWallet.from_entropy_hex(entropy_hex=hx).mnemonic)
    else:
        ok, got, outcome = refused(lambda: b39.mnemonic_from_entropy(hx))
    return ctx.judge("reject_size", ok, case, "raise (every attempt)", got, cls="reject|%s|%s" % (case["tag"], case.get("via", "fn")),
                     outcome=outcome.split("@")[0] if ok else outcome, mech="C04.reject_size.accepted")


def judge_whitespace(ctx, case):
    """Hex with embedded whitespace / other spelling noise whose *bytes* have
    an allowed length: raise, or the right sentence for those bytes."""
    import btc_hd_wallet.bip39 as b39
    hx = case["hex"]
    try:
        ent = bytes.fromhex(hx)
    except ValueError:
        ent = None
    try:
        got, err = b39.mnemonic_from_entropy(hx), None
    except Exception as e:  # noqa
        got, err = None, e
    if err is not None:
        return ctx.judge("whitespace_hex", True, case, "raise or exact", err, cls="ws|" + case["tag"], outcome="raised")
    if ent is None or len(ent) not in SIZES:
        return ctx.judge("whitespace_hex", False, case, "raise", got, cls="ws|" + case["tag"], outcome="returned",
                         mech="C04.whitespace_hex.accepted_bad")
    bad = _check_sentence(got, ent)
    return ctx.judge("whitespace_hex", not bad, case, rb39.mnemonic(ent), bad, cls="ws|" + case["tag"],
                     outcome="exact" if not bad else "lossy", mech="C04.whitespace_hex.lossy")


def judge_bits_api(ctx, case):
    import btc_hd_wallet.bip39 as b39
    bits = case["bits"]
    try:
        got, err = b39.mnemonic_from_entropy_bits(entropy_bits=bits), None
    except Exception as e:  # noqa
        got, err = None, e
    if bits in (128, 160, 192, 224, 256):
        if err is not None:
            return ctx.judge("bits_api", False, case, "sentence", err, cls="bits|ok", mech="C04.bits_api.raised")
        words = got.split(" ")
        ok = len(words) == rb39.WORDS_FOR_ENT[bits] and all(w in rb39.WORD_INDEX for w in words) and rb39.decode(words)[1]
        return ctx.judge("bits_api", ok, case, "valid %d-word sentence" % rb39.WORDS_FOR_ENT[bits], got, cls="bits|ok",
                         mech="C04.bits_api.invalid_sentence")
    return ctx.judge("bits_api", err is not None, case, "raise", got, cls="bits|bad", outcome="raised" if err else "returned",
                     mech="C04.bits_api.accepted_bad_size")


def judge_wordlist(ctx):
    from btc_hd_wallet.bip39_wordlist import word_list
    import btc_hd_wallet.bip39 as b39
    bad = []
    wl = list(word_list)
    if wl != rb39.WORDS:
        diffs = [i for i in range(min(len(wl), 2048)) if wl[i] != rb39.WORDS[i]]
        bad.append(("wordlist", "official list", {"len": len(wl), "first_diffs": [(i, wl[i], rb39.WORDS[i]) for i in diffs[:4]]}))
    dg = hashlib.sha256(("\n".join(wl) + "\n").encode()).hexdigest()
    if dg != rb39.ENGLISH_SHA256:
        bad.append(("digest", rb39.ENGLISH_SHA256, dg))
    if list(b39.word_list) != rb39.WORDS:
        bad.append(("bip39.word_list binding", "official list", "differs"))
    ctx.judge("wordlist", not bad, {"check": "embedded list == official english.txt"}, rb39.ENGLISH_SHA256, bad,
              cls="wordlist", mech="C04.wordlist")


def install_probes(ctx):
    import btc_hd_wallet.bip39 as b39
    inst = probes.Installed()

    def on_mfe(name, a, kw, res, exc):
        hx = kw.get("entropy", a[0] if a else None)
        if not isinstance(hx, str):
            return
        try:
            ent = bytes.fromhex(hx)
        except ValueError:
            return
        clean = hx == ent.hex() or hx == ent.hex().upper()
        if exc is not None:
            if clean and len(ent) in SIZES:
                ctx.judge("probe.mnemonic_from_entropy", False, {"hex": hx}, rb39.mnemonic(ent), exc, cls="probe|raised",
                          mech="C04.probe.raised_on_valid")
            return
        if len(ent) not in SIZES:
            ctx.judge("probe.mnemonic_from_entropy", False, {"hex": hx}, "raise", res, cls="probe|badsize",
                      mech="C04.reject_size.accepted")
            return
        bad = _check_sentence(res, ent)
        ctx.judge("probe.mnemonic_from_entropy", not bad, {"hex": hx}, rb39.mnemonic(ent), bad, cls="probe|%d" % len(ent),
                  mech="C04.probe." + (bad[0][0] if bad else "") if clean else "C04.whitespace_hex.lossy")

    h = probes.try_install(ctx, "observe mnemonic_from_entropy", probes.observe_function, inst, b39, "mnemonic_from_entropy", on_mfe) or []
    ctx.extra["mnemonic_from_entropy_holders"] = ["%s.%s" % x for x in h]
    return inst


def run(ctx):
    rnd = ctx.rnd
    inst = install_probes(ctx)
    try:
        if ctx.shard == 0:
            judge_wordlist(ctx)
        n = 0
        for size in SIZES:
            bits = size * 8
            fixed = [("zero", b"\x00" * size), ("ones", b"\xff" * size),
                     ("0x80..", b"\x80" + b"\x00" * (size - 1)), ("..01", b"\x00" * (size - 1) + b"\x01"),
                     ("7f..", b"\x7f" * size), ("80..", b"\x80" * size)]
            for z in range(1, size):
                fixed.append(("lz%d" % z, b"\x00" * z + b"\xff" * (size - z)))
            for tag, e in fixed:
                n += 1
                if ctx.mine(n):
                    judge_encode(ctx, {"entropy": e, "tag": tag.rstrip("0123456789") or tag, "via": ("fn", "wallet")[n % 2]})
            for b in range(bits):
                n += 1
                if ctx.mine(n):
                    one = (1 << (bits - 1 - b)).to_bytes(size, "big")
                    judge_encode(ctx, {"entropy": one, "tag": "walking-one"})
                    zero = (((1 << bits) - 1) ^ (1 << (bits - 1 - b))).to_bytes(size, "big")
                    judge_encode(ctx, {"entropy": zero, "tag": "walking-zero"})
        for _ in range(ctx.scale(600, 400000)):
            size = rnd.choice(SIZES)
            judge_encode(ctx, {"entropy": gen.rbytes(rnd, size), "tag": "random", "upper": rnd.random() < 0.2,
                               "via": "wallet" if rnd.random() < 0.05 else "fn"})
        # rejection: every other byte length 0..64
        for ln in range(0, 65):
            if ln in SIZES:
                continue
            for pat in ("00", "ab", "ff", None):
                n += 1
                if ctx.mine(n):
                    hx = (pat * ln) if pat else gen.rbytes(rnd, ln).hex()
                    judge_reject_size(ctx, {"hex": hx, "tag": "len%02d" % ln if ln in (0, 1, 8, 15, 17, 33, 48, 64) else "lenother",
                                            "via": "wallet" if pat == "ab" else "fn"})
        # odd hex length
        for ln in (1, 31, 33, 63, 65):
            n += 1
            if ctx.mine(n):
                judge_reject_size(ctx, {"hex": "a" * ln, "tag": "oddhex"})
        # spelling noise
        for _ in range(ctx.scale(160, 20000)):
            size = rnd.choice(SIZES + (8, 15, 17, 33))
            raw = gen.rbytes(rnd, size).hex()
            kind = rnd.choice(["sp-start", "sp-end", "sp-mid", "sp-every-byte", "tab", "newline", "0x", "underscore", "sp-many"])
            if kind == "sp-start":
                hx = " " + raw
            elif kind == "sp-end":
                hx = raw + " "
            elif kind == "sp-mid":
                p = 2 * rnd.randrange(1, size)
                hx = raw[:p] + " " + raw[p:]
            elif kind == "sp-every-byte":
                hx = " ".join(raw[i:i + 2] for i in range(0, len(raw), 2))
            elif kind == "tab":
                hx = raw[:2] + "\t" + raw[2:]
            elif kind == "newline":
                hx = raw + "\n"
            elif kind == "0x":
                hx = "0x" + raw
            elif kind == "underscore":
                hx = raw[:4] + "_" + raw[4:]
            else:
                hx = "   ".join(raw[i:i + 8] for i in range(0, len(raw), 8))
            judge_whitespace(ctx, {"hex": hx, "tag": kind})
        # strings whose CHARACTER count looks like an allowed size (32/40/48/56/64) while the decoded BYTE count is another
        # one (legal or not): a validator that counts characters instead of bytes accepts these
        for _ in range(ctx.scale(240, 30000)):
            T = rnd.choice([32, 40, 48, 56, 64])
            w = rnd.choice([2, 2, 4, 8, 16, T // 3 - (T // 3) % 2])
            nb = (T - w) // 2
            raw = gen.rbytes(rnd, nb).hex()
            pairs = [raw[i:i + 2] for i in range(0, len(raw), 2)]
            ws = [rnd.choice([" ", " ", "\n", "\t"]) for _ in range(w)]
            mode = rnd.choice(["trailing", "leading", "between", "between"])
            if mode == "trailing":
                hx = raw + "".join(ws)
            elif mode == "leading":
                hx = "".join(ws) + raw
            else:
                slots = [""] * (len(pairs) + 1)
                for c in ws:
                    slots[rnd.randrange(len(slots))] += c
                hx = slots[0] + "".join(p + s_ for p, s_ in zip(pairs, slots[1:]))
            judge_whitespace(ctx, {"hex": hx, "tag": "charcount-%d-bytes-%s" % (T, "legal" if nb in SIZES else "illegal")})
        # hex digits replaced by Unicode look-alikes that become hex digits under NFKC / case folding (fullwidth, mathematical):
        # bytes.fromhex refuses them; a decoder that normalises first would accept
        for _ in range(ctx.scale(120, 10000)):
            raw = gen.rbytes(rnd, rnd.choice(SIZES)).hex()
            t, nrep = gen.confuse(rnd, raw if rnd.random() < 0.5 else raw.upper())
            if nrep:
                judge_whitespace(ctx, {"hex": t, "tag": "confusable-hex"})
        for hx in ("00 " * 16, "ab " * 16, "00 " * 20 + "00" * 2):
            n += 1
            if ctx.mine(n):
                judge_whitespace(ctx, {"hex": hx, "tag": "charcount-fixed"})
        for j, bits in enumerate([128, 160, 192, 224, 256, 0, 1, 8, 64, 96, 127, 129, 144, 255, 257, 288, 512, -128]):
            n += 1
            if ctx.mine(n):
                judge_bits_api(ctx, {"bits": bits})
    finally:
        inst.remove()
    # K+3 distinct requests per harvested threshold K, then a second look at the earliest answers (vpkg.longrun.ask_again)
    from .. import longrun
    longrun.histories(ctx, "history", "C04", history_specs(), first_job=2)
    ctx.extra["harvested_thresholds"] = longrun.thresholds()


def history_specs():
    import btc_hd_wallet.bip39 as b39
    import hashlib as _hl

    def ent(j):
        return _hl.sha256(b"vp-c04-%d" % j).digest()[:(16, 20, 24, 28, 32)[j % 5]]
    return [("mnemonic_from_entropy", b39.mnemonic_from_entropy, lambda j: (ent(j).hex(), rb39.mnemonic(ent(j))))]


def replay(ctx, monitor, case):
    if monitor == "history":
        from .. import longrun
        for name, fn, make in history_specs():
            if name == case["function"]:
                longrun.ask_again(ctx, "history", "C04", name, fn, make, case["n"], case["k"])
        return
    inst = install_probes(ctx)
    try:
        if monitor == "encode":
            judge_encode(ctx, case)
        elif monitor == "reject_size":
            case.setdefault("tag", "replay")
            judge_reject_size(ctx, case)
        elif monitor in ("whitespace_hex", "probe.mnemonic_from_entropy"):
            case.setdefault("tag", "replay")
            judge_whitespace(ctx, case) if bytes.fromhex(case["hex"]).hex() != case["hex"].lower() else judge_reject_size(ctx, case)
        elif monitor == "bits_api":
            judge_bits_api(ctx, case)
        else:
            judge_wordlist(ctx)
    finally:
        inst.remove()
