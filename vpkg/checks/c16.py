"""C16 - mainnet and testnet artefacts never mix."""
import json
import re

from .. import gen
from ..ref import bip32 as rb32, addr as raddr, path as rpath
from .c14 import leaves
from .. import longrun
from ..core import fresh_str

PROP = "C16"
LEVEL = "exploration"
SHARDS = {"quick": 8, "thorough": 16}
TIMEOUT = {"quick": 900, "thorough": 7200}
REQUIRED = {"leaf_network": 100, "reimport": 96, "classified_leaves": 1}
ANCHORS = ['base_wallet:BaseWallet.node_extended_keys', 'paper_wallet:PaperWallet.generate', 'paper_wallet:PaperWallet.wasabi_json', 'keys:PrivateKey.wif', 'wallet_utils:Version.__int__', 'base_wallet:BaseWallet.from_extended_key', 'helper:h160_to_p2sh_address']
RULE = ("both networks x random seeds x accounts/intervals x every output-producing API (five address kinds on nodes at "
        "random paths, group rows, account keys, node_extended_keys, default extended keys, generate() minus the BIP85 block, "
        "wasabi_json) + wallets re-imported from each of the 12 version prefixes; every string leaf is classified by an "
        "independent network classifier (Base58 version byte, Bech32 hrp, SLIP-132 version, coin component of BIP44-shaped "
        "paths); distinct = distinct (monitor, case) digests"
        " EXTENSIONS: + nodes the caller parsed with the other / the default network flag handed to the wallet, caller edits of returned version lists before an import, one listing of 2^15+600 rows in fast mode, accounts equal to meaningful numbers, node-level testnet listings of K+3 rows per harvested threshold K (rows and their children classified), every purpose 0'..255' / 0..255 on both networks, numbers new against the pinned tree as purposes / coin types / accounts, fresh-string address kinds")
LEVEL_TEXT = ("Every network-tagged string a real wallet emits is decoded independently and must carry the wallet's own "
              "network; a leaf that classifies as the other network is the violation, unclassifiable leaves are counted and "
              "ignored. Re-import from each of the 12 prefixes must set the network from the prefix alone and everything the "
              "re-imported wallet emits must carry it.")
LEVEL_NOTE = ("BIP85 block excluded: its encodings are fixed by BIP85/C12 (mainnet WIF/xprv) and are not in the statement's "
              "list. Trusted: reference decoders.")
TECHNIQUE = "runtime leaf classifier (independent network decoder) over everything real wallets emit"
ASSUMPTIONS = ["ecdsa fallback backend"]
H = 1 << 31
KINDS = ["p2pkh", "p2wpkh", "p2sh_p2wpkh", "p2wsh", "p2sh_p2wsh"]
PATH_RE = re.compile(r"^[mM]/(44|49|84)'/(\d+)'(/|$)")


def leaf_network(s):
    """None (untagged) | False (mainnet) | True (testnet)."""
    c = raddr.classify_string(s)
    if c["class"] in ("address", "wif"):
        return c["testnet"]
    if c["class"] in ("xprv", "xpub"):
        return c.get("testnet")
    m = PATH_RE.match(s)
    if m:
        coin = int(m.group(2))
        if coin == 0:
            return False
        if coin == 1:
            return True
    return None


def scan(ctx, what, emitted, tn, case, cls):
    wrong, classified = [], 0
    for leaf in leaves(emitted, []):
        n = leaf_network(leaf)
        if n is None:
            continue
        classified += 1
        if n != tn:
            wrong.append(leaf)
    ctx.extra["classified_leaves"] = ctx.extra.get("classified_leaves", 0) + classified
    ctx.judge("leaf_network", not wrong, dict(case, what=what), "all %d tagged leaves carry %s" % (classified, "testnet" if tn else "mainnet"),
              wrong[:4], cls="%s|%s|%s" % (what, "test" if tn else "main", cls), mech="C16.wrong_network." + what)
    return classified


def emit_all(w, tn, rnd, private, account, s, e, extra_paths=()):
    """Everything network-tagged the wallet can say, as a dict of named outputs; the requests are issued in a RANDOM
    order on the same wallet object (state left by one request must not change the network tag of another)."""
    out = {}
    master = w.master
    paths = [[]]
    for _ in range(3):
        L = rnd.randrange(1, 5)
        paths.append([rnd.choice([0, 1, 44 + H, 49 + H, 84 + H, H, H + 1, rnd.randrange(0, 2 * H), rnd.choice(gen.meaningful()) % H + H,
                                  rnd.randrange(0, 128) + H]) if private
                      else rnd.choice([0, 1, rnd.randrange(0, H), rnd.choice(gen.meaningful()) % H]) for _ in range(L)])
    paths += [list(p_) for p_ in extra_paths]
    jobs = []

    def path_job(p):
        def run():
            node = master.derive_path(index_list=list(p))
            key = rpath.fmt(p)
            out["addresses:" + key] = [getattr(w, k + "_address")(node) for k in KINDS]
            out["pk_address:" + key] = [node.public_key.address(testnet=w.testnet, addr_type=fresh_str(t)) for t in ("p2pkh", "p2wpkh")]
            nk = w.node_extended_keys(node)
            out["node_extended_keys:" + key] = [nk["pub"], nk["prv"]]   # (the 'path' text of arbitrary nodes is not BIP44-shaped output)
            out["default_xpub:" + key] = node.extended_public_key()
            if private:
                out["default_xprv:" + key] = node.extended_private_key()
                out["wif:" + key] = node.private_key.wif(testnet=w.testnet)
            out["group:" + key] = [r[1:] for r in w.group(nodes=[node], addr_fnc=w.p2sh_p2wpkh_address)]
            # the same key as a node object the CALLER parsed - with the other network's flag, or without telling the parser
            # anything: rows the WALLET makes of it carry the wallet's network
            from btc_hd_wallet.bip32 import PrvKeyNode, PubKeyNode
            for flavour, kw in (("flag-flipped", {"testnet": not w.testnet}), ("flag-default", {})):
                foreign = PrvKeyNode.parse(node.extended_private_key(), **kw) if private else PubKeyNode.parse(node.extended_public_key(), **kw)
                out["group_foreign_node_%s:%s" % (flavour, key)] = [r[1:] for r in w.group(nodes=[foreign], addr_fnc=w.p2wpkh_address)] + \
                    [getattr(w, k + "_address")(foreign) for k in KINDS]
        return run
    for p in paths:
        jobs.append(path_job(p))
    if private:
        def gen_job():
            g = w.generate(account=account, interval=(s, e))
            out["generate"] = {k: v for k, v in g.items() if k != "BIP85"}
            out["json"] = {k: v for k, v in json.loads(w.json(data=g)).items() if k != "BIP85"}

        def wasabi_job():
            out["wasabi"] = json.loads(w.wasabi_json())["ExtPubKey"]

        def by_path_other_coin_job():
            # a lookup under the OTHER network's coin type (legal), before/after the BIP44/49/84 requests
            other = 0 if tn else 1
            n = w.by_path("m/%d'/%d'/%d'/0/1" % (rnd.choice([44, 49, 84]), other, account if account < H else 0))
            out["default_xpub:othercoin"] = n.extended_public_key()
        jobs += [gen_job, wasabi_job, by_path_other_coin_job]
        for name in ("bip44", "bip49", "bip84"):
            def bip_job(name=name):
                keys, rows = getattr(w, name)(account=account, interval=(s, e))
                out[name] = [keys, rows]
            jobs.append(bip_job)
    rnd.shuffle(jobs)
    for j in jobs:
        j()
    return out


def judge_wallet(ctx, case):
    from btc_hd_wallet.paper_wallet import PaperWallet
    tn = case["testnet"]
    rnd = ctx.rnd
    w = PaperWallet.from_bip39_seed_bytes(bip39_seed=case["seed"], testnet=tn)
    try:
        out = emit_all(w, tn, rnd, True, case["account"], case["start"], case["end"], extra_paths=case.get("extra_paths", ()))
    except Exception as ex:  # noqa
        return ctx.judge("leaf_network", False, case, "outputs", ex, cls="raised", mech="C16.emit.raised")
    for what, val in out.items():
        scan(ctx, what.split(":")[0], val, tn, case, "seed")


_SPW = {}


def judge_small_purpose(ctx, case):
    from btc_hd_wallet.paper_wallet import PaperWallet
    tn, pnum = case["testnet"], case["purpose"]
    key = (case["seed"], tn)
    if key not in _SPW:
        _SPW.clear()
        _SPW[key] = PaperWallet.from_bip39_seed_bytes(bip39_seed=case["seed"], testnet=tn)
    w = _SPW[key]
    out = {}
    try:
        for path in ([pnum + H, (1 if tn else 0) + H, H], [pnum + H], [pnum, 0]):
            node = w.master.derive_path(index_list=list(path))
            nk = w.node_extended_keys(node)
            out[rpath.fmt(path)] = [nk["pub"], nk["prv"], w.node_extended_public_key(node), w.node_extended_private_key(node),
                                    node.extended_public_key(), w.p2wpkh_address(node)]
    except Exception as ex:  # noqa
        return ctx.judge("leaf_network", False, case, "outputs", ex, cls="small-purpose|raised", mech="C16.emit.raised")
    return scan(ctx, "small_purpose", out, tn, case, "purpose%s" % ("-known" if pnum in (44, 49, 84) else ""))


def judge_reimport(ctx, case):
    from btc_hd_wallet.paper_wallet import PaperWallet
    ver = case["version"]
    typ, net, purpose = rb32.SLIP132_INV[ver]
    tn = net == "test"
    m = rb32.master(case["seed"])
    node = rb32.derive(m, case["path"])
    if typ == "prv":
        s = rb32.XKey(node.k, None, node.c, 0, 0, b"\x00" * 4).xprv(ver) if case["as_master"] else node.xprv(ver)
    else:
        s = node.xpub(ver)
    sc = case.get("scribble")
    if sc:
        # a caller that builds its own lists from what the Version getters hand out, editing them in place
        from btc_hd_wallet.wallet_utils import Version
        try:
            a, b = (Version.testnet_versions, Version.mainnet_versions) if sc == "test+=main" else \
                   (Version.mainnet_versions, Version.testnet_versions) if sc == "main+=test" else \
                   (Version.prv_versions, Version.pub_versions) if sc == "prv+=pub" else (Version.pub_versions, Version.prv_versions)
            lst = a()
            lst += b()
            if case.get("scribble_clear"):
                lst2 = b()
                del lst2[:]
        except Exception:  # noqa
            pass
    try:
        w = PaperWallet.from_extended_key(extended_key=s)
    except Exception as ex:  # noqa
        return ctx.judge("reimport", False, case, "wallet", ex, cls="reimport|raised", mech="C16.reimport.raised")
    ok = bool(w.testnet) == tn and bool(w.master.testnet) == tn
    ctx.judge("reimport", ok, case, tn, (w.testnet, w.master.testnet), cls="reimport|%s%s%d|%s" % (typ, net, purpose, "scribbled" if sc else "plain"), mech="C16.reimport.network_flag")
    try:
        out = emit_all(w, tn, ctx.rnd, typ == "prv", 0, 0, 2)
    except Exception as ex:  # noqa
        return ctx.judge("leaf_network", False, case, "outputs", ex, cls="reimport|emit-raised", mech="C16.emit.raised")
    for what, val in out.items():
        scan(ctx, what.split(":")[0], val, tn, case, "reimport-%s%s%d" % (typ, net, purpose))


def judge_long_node_listing(ctx, case):
    tn = case["testnet"]

    def more(parent, rows, positions, bad):
        wrong = []
        for j in positions[:64] + positions[-8:]:
            r = rows[j]
            out = [r.extended_public_key()]
            if case["side"] == "prv":
                out.append(r.extended_private_key())
            if r.index < H or case["side"] == "prv":
                out.append(r.ckd(index=0).extended_public_key())
            for leaf in out:
                if leaf_network(leaf) is not None and leaf_network(leaf) != tn:
                    wrong.append((j, leaf[:12]))
        if wrong:
            bad.append(("wrong_network", "testnet" if tn else "mainnet", wrong[:3]))
        ctx.extra["classified_leaves"] = ctx.extra.get("classified_leaves", 0) + 2 * len(positions[:64])
    return longrun.judge_node_listing(ctx, "leaf_network", "C16", case, more=more)


def run(ctx):
    rnd = ctx.rnd
    for j in range(ctx.scale(96, 5000)):
        r = rnd.random()
        s = 0 if r < 0.4 else (H - 3 if r < 0.5 else rnd.randrange(0, H - 4))
        judge_wallet(ctx, {"seed": gen.rbytes(rnd, rnd.choice([16, 32, 64])), "testnet": bool((j + ctx.shard) & 1),
                           "account": gen.account(rnd), "start": s, "end": s + rnd.randrange(0, 4)})
    # purposes / coin types / accounts equal to numbers a change has just written into the code (vpkg.harvest: constants and digits
    # inside identifiers), hardened and not, on both networks
    for vi, v in enumerate(gen.new_numbers()):
        if ctx.mine(vi):
            for tn_ in (True, False):
                judge_wallet(ctx, {"seed": gen.rbytes(rnd, 32), "testnet": tn_, "account": v, "start": 0, "end": 1,
                                   "extra_paths": [[v + H, (1 if tn_ else 0) + H, H], [v + H], [v], [44 + H, v + H, H], [84 + H, (1 if tn_ else 0) + H, v + H, 0, v]]})
    # every small purpose 0' .. 255' (and 0 .. 255 unhardened) as first path component, both networks: what the wallet prints for
    # the node below it carries the wallet's network whatever flavour - known or not - the purpose selects
    sp_seed = gen.rbytes(rnd, 32)
    for pnum in range(256):
        if ctx.mine(pnum):
            judge_small_purpose(ctx, {"seed": sp_seed, "testnet": bool(pnum & 1) or pnum % 4 == 2, "purpose": pnum})
            judge_small_purpose(ctx, {"seed": sp_seed, "testnet": not (bool(pnum & 1) or pnum % 4 == 2), "purpose": pnum})
    vers = sorted(rb32.SLIP132_INV)
    for j0 in range(ctx.scale(96, 3000)):
        j = j0 * ctx.nshards + ctx.shard
        L = rnd.choice([0, 0, 1, 3])
        judge_reimport(ctx, {"seed": gen.rbytes(rnd, 32), "version": vers[j % 12], "path": [rnd.randrange(0, 2 * H) for _ in range(L)],
                             "as_master": L > 0 and rnd.random() < 0.5,
                             "scribble": rnd.choice([None, None, "test+=main", "main+=test", "prv+=pub", "pub+=prv"]),
                             "scribble_clear": rnd.random() < 0.3})
    # one listing of 2^15 + 600 rows (fast mode, see c06.huge_listing_rows): every row's address and WIF carry the wallet's tag
    if ctx.mine_once(6):
        from .c06 import huge_listing_rows
        tnh = bool(ctx.seed & 1) or True
        case = {"route": "from_bip39_seed_bytes", "seed": gen.rbytes(rnd, 32), "testnet": tnh, "purpose_listed": 84, "account": 0, "start": 0,
                "n": (1 << 15) + 600 if not ctx.thorough else (1 << 16) + 600}
        try:
            w, tn, keys, rows = huge_listing_rows(case)
            scan(ctx, "huge_listing", [keys, [r[1:] for r in rows]], tn, case, "huge")
        except Exception as ex:  # noqa
            ctx.judge("leaf_network", False, case, "rows", ex, cls="huge|raised", mech="C16.emit.raised")
    # ONE node-level listing call of n rows, n aimed at every threshold written down in the code under test (vpkg.harvest /
    # vpkg.longrun): the rows, and what is derived below them, print the tree's network
    for side in ("pub", "prv"):
        for case in longrun.node_listing_cases(ctx, side, gen.rbytes(rnd, 32), wide=False):
            case["testnet"] = True if ctx.rnd.random() < 0.8 else case["testnet"]
            judge_long_node_listing(ctx, case)
    ctx.judge("classified_leaves", ctx.extra.get("classified_leaves", 0) > 0, {"classified": ctx.extra.get("classified_leaves", 0)},
              cls="count", mech="C16.nothing_classified")


def replay(ctx, monitor, case):
    case.pop("what", None)
    if "side" in case:
        return judge_long_node_listing(ctx, case)
    if "purpose" in case:
        return judge_small_purpose(ctx, case)
    if "version" in case:
        judge_reimport(ctx, case)
    else:
        judge_wallet(ctx, case)
