"""C17 - path strings are honoured component by component or rejected."""
from .. import gen, bridge
from ..ref import bip32 as rb32, path as rpath

from ..core import refused

PROP = "C17"
LEVEL = "exploration"
SHARDS = {"quick": 8, "thorough": 16}
TIMEOUT = {"quick": 900, "thorough": 7200}
THOROUGH_MULT = 4   # thorough budgets below are multiplied by this (sized for roughly five minutes on 16 cores)
REQUIRED = {"parse_format": 3000, "by_path": 800, "malformed": 800, "deep": 200, "lenient": 40}
ANCHORS = ['wallet_utils:Bip32Path.parse', 'wallet_utils:Bip32Path.convert_hardened', 'wallet_utils:Bip32Path.__repr__', 'base_wallet:BaseWallet.by_path', 'bip32:PubKeyNode.__repr__']
RULE = ("well-formed: index lists of length 0..5 over [0,2^32) with edge values, both markers (' and h, mixed), both root "
        "marks; malformed: single-fault grammar (wrong root, junk tokens, empty inner component, negative and oversized numbers "
        "with and without marker) applied at every level 1..5; deep: well-formed paths of 6..12 levels; lenient: spellings "
        "Python's int() accepts (+5, ' 7', 1_0, non-ASCII digits, trailing '/') judged for value only; distinct = distinct "
        "(monitor, case) digests"
        " EXTENSIONS: + all two- and three-marker suffix combinations, well-formed twins (case / NFKC / stripped spellings) looked up before the malformed string, wallets imported at depth d (private and watch-only), every refusal repeated three times, out-of-range numbers dressed the way int() tolerates, every malformed string also offered to watch-only wallets imported at depth 0 and 3, request histories, structure around well-formed paths (leading / doubled separators, doubled root, blanks) within five levels")
LEVEL_TEXT = ("Each Bip32Path.parse / str / by_path / str(node) execution is compared with an own strict recursive-descent "
              "parser and the reference derivation; malformed strings must make by_path raise (a returned node is the "
              "violation); paths deeper than five levels must raise or yield the node of the FULL path.")
LEVEL_NOTE = ("Known finding C17.truncate_gt5 (pinned test asserts the truncation) is matched by mechanism: returned node equals "
              "the reference node of the first five levels. Trusted: reference parser + BIP32 model.")
TECHNIQUE = "runtime differential oracle (strict path grammar + reference derivation) on real parse/by_path calls; outcome-based rejection monitor"
ASSUMPTIONS = ["ecdsa fallback backend"]
H = 1 << 31
EDGE = [0, 1, H - 1, H, H + 1, 2 * H - 1, 44 + H, 84 + H]

_W = {}


def wallet(seed, tn):
    from btc_hd_wallet.base_wallet import BaseWallet
    key = (seed, tn)
    if key not in _W:
        if len(_W) > 8:
            _W.clear()
        _W[key] = (BaseWallet.from_bip39_seed_bytes(bip39_seed=seed, testnet=tn), rb32.master(seed))
    return _W[key]


def spell(rnd, lst, root="m", marker=None):
    comps = []
    for i in lst:
        if i >= H:
            mk = marker or rnd.choice(["'", "h"])
            comps.append("%d%s" % (i - H, mk))
        else:
            comps.append(str(i))
    return "/".join([root] + comps)


def judge_parse_format(ctx, case):
    from btc_hd_wallet.wallet_utils import Bip32Path
    lst, root = case["list"], case["root"]
    s = case["s"]
    bad = []
    try:
        p = Bip32Path.parse(s)
        if p.to_list() != lst:
            bad.append(("to_list", lst, p.to_list()))
        canon = rpath.fmt(lst, root)
        if str(p) != canon:
            bad.append(("str", canon, str(p)))
        # markers equivalent
        for mk in ("'", "h"):
            q = Bip32Path.parse(spell(None, lst, root, mk))
            if not (q == p) or q.to_list() != lst:
                bad.append(("marker_equiv_" + mk, lst, q.to_list()))
        # format -> parse identity
        if Bip32Path.parse(str(p)).to_list() != lst or str(Bip32Path.parse(str(p))) != str(p):
            bad.append(("format_parse_identity", canon, str(Bip32Path.parse(str(p)))))
        # constructed from numbers formats the same way
        names = ["purpose", "coin_type", "account", "chain", "addr_index"]
        built = Bip32Path(private=(root == "m"), **dict(zip(names, lst)))
        if str(built) != canon or not (built == p):
            bad.append(("constructed", canon, str(built)))
    except Exception as e:  # noqa
        bad.append(("raised", lst, e))
    return ctx.judge("parse_format", not bad, case, lst, bad, cls="pf|len%d|%s|%s" % (len(lst), root, case.get("tag", "")),
                     mech="C17.parse_format." + (bad[0][0] if bad else ""))


_WK = {}


def wallet_kind(seed, tn, kind, root_path):
    """Wallets of other kinds than 'private master': imported from an extended key at depth len(root_path), private
    or watch-only.  Returns (wallet, reference root XKey, is_private)."""
    from btc_hd_wallet.base_wallet import BaseWallet
    key = (seed, tn, kind, tuple(root_path))
    if key not in _WK:
        if len(_WK) > 16:
            _WK.clear()
        root = rb32.derive(rb32.master(seed), root_path)
        if kind == "prv-import":
            w = BaseWallet.from_extended_key(root.xprv(rb32.version_for("prv", tn, 44)))
            _WK[key] = (w, root, True)
        else:
            w = BaseWallet.from_extended_key(root.xpub(rb32.version_for("pub", tn, 84)))
            _WK[key] = (w, root.neuter(), False)
    return _WK[key]


def judge_by_path(ctx, case):
    if case.get("wkind", "master") != "master":
        return judge_by_path_kind(ctx, case)
    w, m = wallet(case["seed"], case["testnet"])
    lst, s = case["list"], case["s"]
    exp = rb32.derive(m, lst)
    try:
        node = w.by_path(s)
    except Exception as e:  # noqa
        return ctx.judge("by_path", False, case, exp.fields(), e, cls="bp|len%d|raised" % len(lst), mech="C17.by_path.raised")
    bad = bridge.compare_node(node, exp, case["testnet"], True)
    # equals iterated ckd on the real objects
    it = w.master
    for i in lst:
        it = it.ckd(index=i)
    if not (it == node) or bytes(it.key) != bytes(node.key):
        bad.append(("iterated_ckd", bridge.node_obs(it), bridge.node_obs(node)))
    if str(node) != rpath.fmt(lst, "m"):
        bad.append(("str_node", rpath.fmt(lst, "m"), str(node)))
    return ctx.judge("by_path", not bad, case, exp.fields(), bad, cls="bp|len%d|%s" % (len(lst), case.get("tag", "")),
                     mech="C17.by_path." + (bad[0][0] if bad else ""))


def judge_by_path_kind(ctx, case):
    """by_path on wallets imported from a (non-)master extended key, private or watch-only: the path is relative to
    THAT wallet's root node and every component must be applied, in order."""
    w, root, private = wallet_kind(case["seed"], case["testnet"], case["wkind"], case["root_path"])
    lst, s = case["list"], case["s"]
    exp = rb32.derive(root, lst)
    try:
        node = w.by_path(s)
    except Exception as e:  # noqa
        return ctx.judge("by_path", False, case, exp.fields(), e, cls="bp|%s|len%d|raised" % (case["wkind"], len(lst)), mech="C17.by_path.raised")
    bad = bridge.compare_node(node, exp, case["testnet"], private)
    it = w.master
    for i in lst:
        it = it.ckd(index=i)
    if bytes(it.key) != bytes(node.key) or it.depth != node.depth or it.index != node.index:
        bad.append(("iterated_ckd", bridge.node_obs(it), bridge.node_obs(node)))
    if str(node) != rpath.fmt(lst, "m" if private else "M"):
        bad.append(("str_node", rpath.fmt(lst, "m" if private else "M"), str(node)))
    return ctx.judge("by_path", not bad, case, exp.fields(), bad, cls="bp|%s|root%d|len%d" % (case["wkind"], len(case["root_path"]), len(lst)),
                     mech="C17.by_path." + (bad[0][0] if bad else ""))


def judge_malformed(ctx, case):
    w, m = wallet(case["seed"], case["testnet"])
    s = case["s"]
    kind = rpath.classify(s)
    if kind[0] != "malformed":
        return None            # generator produced something that denotes a path after all
    # the well-formed TWINS of the malformed string are looked up first (its lower / upper / case-folded / NFKC / stripped
    # spellings, look-alike markers replaced by real ones) - on this wallet and on another one: whatever remembers requests
    # under a normalised key must not answer for the malformed spelling afterwards
    import unicodedata
    twins = []
    for t in (s.lower(), s.upper(), s.casefold(), unicodedata.normalize("NFKC", s), s.strip(), s.replace(" ", ""),
              s.replace("H", "h"), s.replace("\u2019", "'").replace("\u2032", "'").replace("\u02b9", "'").replace("\u00b4", "'")):
        if t != s and t not in twins and rpath.classify(t)[0] != "malformed":
            twins.append(t)
    if twins:
        w2, _m2 = wallet(case["seed"][::-1], not case["testnet"])
        for t in twins[:4]:
            for wal in (w, w2):
                try:
                    wal.by_path(t)
                except Exception:  # noqa
                    pass
    ok, obs, outcome = refused(lambda: bridge.node_obs(w.by_path(s)))       # (stable refusal: asked three times in a row)
    r = ctx.judge("malformed", ok, case, "raise (%s)" % kind[1], obs, cls="mal|%s|%s" % (case["fault"], kind[1]),
                  outcome=outcome, mech="C17.malformed.accepted")
    # the same malformed text on WATCH-ONLY wallets (public derivation is other code: its own serialisation of the child number,
    # its own refusals), imported at depth 0 and at depth 3, root letter switched to M
    sM = ("M" + s[1:]) if s[:1] == "m" else s
    if rpath.classify(sM)[0] == "malformed":
        for root_path in ((), (84 + H, H, H)):
            wo = wallet_kind(case["seed"], case["testnet"], "pub-import", list(root_path))[0]
            ok2, obs2, outcome2 = refused(lambda: bridge.node_obs(wo.by_path(sM)))
            r = ctx.judge("malformed", ok2, dict(case, s=sM, wallet="watch-only", imported_at_depth=len(root_path)), "raise (%s)" % kind[1], obs2,
                          cls="mal-watch|%s|%s" % (case["fault"], kind[1]), outcome=outcome2, mech="C17.malformed.accepted") and r
    return r


def judge_lenient(ctx, case):
    w, m = wallet(case["seed"], case["testnet"])
    s = case["s"]
    kind = rpath.classify(s)
    if kind[0] == "malformed":
        return judge_malformed(ctx, dict(case, fault="lenient-gen"))
    lst = kind[2]
    if len(lst) > 5:
        return None
    try:
        node = w.by_path(s)
    except Exception as e:  # noqa
        # refusing an odd spelling is fine: the property only forbids deriving some other key
        return ctx.judge("lenient", True, case, "value or raise", e, cls="len|raised", outcome="raised")
    exp = rb32.derive(m, lst)
    bad = bridge.compare_node(node, exp, case["testnet"], True)
    return ctx.judge("lenient", not bad, case, exp.fields(), bad, cls="len|%s" % case.get("tag", ""), outcome="value",
                     mech="C17.lenient.other_key")


def judge_deep(ctx, case):
    w, m = wallet(case["seed"], case["testnet"])
    lst, s = case["list"], case["s"]
    try:
        node = w.by_path(s)
    except Exception as e:  # noqa
        return ctx.judge("deep", True, case, "raise or full path", e, cls="deep|%d|raised" % len(lst), outcome="raised")
    full = rb32.derive(m, lst)
    bad = bridge.compare_node(node, full, case["testnet"], True)
    if not bad:
        return ctx.judge("deep", True, case, full.fields(), None, cls="deep|%d|honoured" % len(lst), outcome="honoured")
    five = rb32.derive(m, lst[:5])
    trunc = not bridge.compare_node(node, five, case["testnet"], True)
    return ctx.judge("deep", False, case, full.fields(), bridge.node_obs(node), cls="deep|%d|%s" % (len(lst), "truncated" if trunc else "other"),
                     outcome="truncated" if trunc else "other-key", mech="C17.truncate_gt5" if trunc else "C17.deep.other_key")


MARKS = ["'", "h", "H", "\u2019"]
JUNK = ["5" + a + b for a in MARKS for b in MARKS] + ["5" + a + b + c for a in "'h" for b in "'h" for c in "'h"] + ["5\u2019", "5\u02b9", "5\uff48", "5H", "5\u2032", "\uff15'", "5\u00b4", "abc", "0x10", "0b1", "1.5", "1e3", "None", "'", "h", "5''", "5hh", "5'h", "h5", "'5", "--5", "5-", "1,0", "1;", "m", "*", "?",
        "1 2", "true", "0o7", "1__0", "_1", "1_"]
LENIENT = ["+5", " 7", "7 ", "007", "1_0", "٥", "５", "+0'", " 3'", "1_000h", "-0"]
BADNUM = ["-1", "-5", "-1'", "-5h", "-2147483648'", "2147483648'", "2147483649h", "4294967295'", "4294967296", "4294967296'",
          "99999999999999999999", "99999999999999999999'", "-99999999999999999999'",
          # out-of-range numbers DRESSED the way int() tolerates (blanks around the number / the sign, '+', '_', other digit scripts):
          # a range test written on the text ('startswith("-")', len(), isdigit()) and int() disagree on these
          " -1'", "\t-5h", " -2147483648h", "-1 '", " -1", "-1 ", "\n-7'", "-1_0'", "-\u0665'", "-\u0661h", " -2147483647'",
          "+2147483648'", " 2147483648'", "2147483648 '", "4294967296 ", " 4294967296", "+4294967296", "4_294_967_296", "2_147_483_648'",
          "\u0662\u0661\u0664\u0667\u0664\u0668\u0663\u0666\u0664\u0668'", " -99999999999999999999h"]
ROOTS = ["x", "", "mm", "n", " m", "m ", "Mm", "1", "m'", "/", "µ", "\uff4d", "\u217f", "\uff2d", "\u216f", "\U0001d426", "m44'", "m0", "master", "M0",
         "m\u200b", "\u043c"]


def run(ctx):
    rnd = ctx.rnd
    seed = gen.rbytes(rnd, 32)
    tn = bool(ctx.shard & 1)
    n = 0
    # ---- well-formed
    for L in range(0, 6):
        for e in EDGE:
            n += 1
            if ctx.mine(n):
                lst = [e] * L
                for root in ("m", "M"):
                    judge_parse_format(ctx, {"list": lst, "root": root, "s": spell(rnd, lst, root), "tag": "edge"})
    for _ in range(ctx.scale(3200, 300000)):
        L = rnd.randrange(0, 6)
        lst = [rnd.choice(EDGE) if rnd.random() < 0.3 else rnd.randrange(0, 1 << 32) for _ in range(L)]
        root = rnd.choice(["m", "M"])
        judge_parse_format(ctx, {"list": lst, "root": root, "s": spell(rnd, lst, root), "tag": "random"})
    for _ in range(ctx.scale(900, 60000)):
        L = rnd.randrange(0, 6)
        lst = [rnd.choice(EDGE) if rnd.random() < 0.3 else rnd.randrange(0, 1 << 32) for _ in range(L)]
        judge_by_path(ctx, {"seed": seed, "testnet": tn, "list": lst, "s": spell(rnd, lst, rnd.choice(["m", "M"])), "tag": "random"})
    for _ in range(ctx.scale(360, 30000)):
        kind = rnd.choice(["prv-import", "pub-import"])
        rp = [rnd.choice([44 + H, 84 + H, 0, 1, H]) for _ in range(rnd.choice([0, 1, 2, 3, 3]))]
        L = rnd.randrange(0, 6)
        if kind == "pub-import":
            lst = [rnd.choice([0, 1, 2, H - 1, rnd.randrange(0, H)]) for _ in range(L)]
        else:
            lst = [rnd.choice(EDGE) if rnd.random() < 0.3 else rnd.randrange(0, 1 << 32) for _ in range(L)]
        judge_by_path(ctx, {"seed": seed, "testnet": tn, "wkind": kind, "root_path": rp, "list": lst,
                            "s": spell(rnd, lst, rnd.choice(["m", "M"])), "tag": "imported"})
    # ---- malformed: single fault at each level
    faults = [("junk", t) for t in JUNK] + [("badnum", t) for t in BADNUM] + [("empty-inner", "")]
    for fault, tok in faults:
        for level in range(1, 6):
            for total in (level, 5):
                n += 1
                if not ctx.mine(n):
                    continue
                if fault == "empty-inner" and total == level:
                    continue          # trailing empty component is tolerated (pinned by the suite)
                comps = [str(rnd.randrange(0, 50)) + rnd.choice(["", "'", "h"]) for _ in range(total)]
                comps[level - 1] = tok
                judge_malformed(ctx, {"seed": seed, "testnet": tn, "s": "/".join(["m"] + comps), "fault": fault})
    for r in ROOTS:
        for tail in ("", "/0", "/44'/0'/0'"):
            n += 1
            if ctx.mine(n):
                judge_malformed(ctx, {"seed": seed, "testnet": tn, "s": r + tail, "fault": "root"})
    # STRUCTURE around an otherwise well-formed path: separators in front of the root (the absolute-file-path habit), a doubled
    # root, the root behind a separator only, separators doubled inside - whatever tidies a path up must not tidy these into a
    # well-formed one (strings the reference grammar still accepts are skipped by judge_malformed)
    for wf in ("m", "m/0", "m/0'/1", "M/0/1", "m/44'/0'/0'/0/5", "m/84h/1h/0h"):
        for form in ("/%s", "//%s", "///%s", "/%s/", " /%s", "%s//1", "m/%s", "M/%s", "/m/%s", "%s/m", ".//%s", "./%s", "\\%s", "%s\\0", "/ %s"):
            n += 1
            if (form % wf).count("/") > 5:
                continue          # (beyond five levels the known finding C17.truncate_gt5 decides what is looked at: `deep` monitor)
            if ctx.mine(n):
                judge_malformed(ctx, {"seed": seed, "testnet": tn, "s": form % wf, "fault": "structure"})
    for _ in range(ctx.scale(640, 30000)):
        total = rnd.randrange(1, 6)
        comps = [str(rnd.randrange(0, H)) + rnd.choice(["", "'", "h"]) for _ in range(total)]
        fault = rnd.choice(["neg-hard", "neg", "big-hard", "big", "junk-rand"])
        lvl = rnd.randrange(total)
        if fault == "neg-hard":
            comps[lvl] = "-%d%s" % (rnd.randrange(1, 1 << 33), rnd.choice("'h"))
        elif fault == "neg":
            comps[lvl] = "-%d" % rnd.randrange(1, 1 << 33)
        elif fault == "big-hard":
            comps[lvl] = "%d%s" % (rnd.randrange(H, 1 << 34), rnd.choice("'h"))
        elif fault == "big":
            comps[lvl] = "%d" % rnd.randrange(1 << 32, 1 << 40)
        else:
            comps[lvl] = "".join(rnd.choice("0123456789'h-+._ xe") for _ in range(rnd.randrange(1, 6)))
        judge_malformed(ctx, {"seed": seed, "testnet": tn, "s": "/".join(["m"] + comps), "fault": fault})
    # ---- lenient spellings: value-correctness only
    for tok in LENIENT:
        for level in range(1, 6):
            n += 1
            if ctx.mine(n):
                comps = [str(rnd.randrange(0, 50)) for _ in range(level)]
                comps[level - 1] = tok
                judge_lenient(ctx, {"seed": seed, "testnet": tn, "s": "/".join(["m"] + comps), "tag": "token"})
    for s in ("m/", "m/1/", "m/1/2/3/4/5/", "M/", "m/1//"):
        n += 1
        if ctx.mine(n):
            judge_lenient(ctx, {"seed": seed, "testnet": tn, "s": s, "tag": "trailing-slash"})
    # ---- deep paths
    for _ in range(ctx.scale(240, 20000)):
        L = rnd.randrange(6, 13)
        lst = [rnd.choice([0, 1, 2, H, H + 1]) if rnd.random() < 0.5 else rnd.randrange(0, 1 << 32) for _ in range(L)]
        judge_deep(ctx, {"seed": seed, "testnet": tn, "list": lst, "s": spell(rnd, lst, "m")})
    # K+3 distinct requests per harvested threshold K, then a second look at the earliest answers (vpkg.longrun.ask_again)
    from .. import longrun
    longrun.histories(ctx, "history", "C17", history_specs(), first_job=2)
    ctx.extra["harvested_thresholds"] = longrun.thresholds()


def history_specs():
    from btc_hd_wallet.wallet_utils import Bip32Path

    def lst(j):
        return [(44, 49, 84)[j % 3] + H, (j >> 20) + H, ((j >> 10) & 1023) + H, j & 1, j]

    def text(j):
        return rpath.fmt(lst(j), "m") if j % 4 else rpath.fmt(lst(j), "m").replace("'", "h")
    return [("Bip32Path.parse", lambda s: (Bip32Path.parse(s).to_list(), str(Bip32Path.parse(s))), lambda j: (text(j), (lst(j), rpath.fmt(lst(j), "m"))))]


def replay(ctx, monitor, case):
    if monitor == "history":
        from .. import longrun
        for name, fn, make in history_specs():
            if name == case["function"]:
                longrun.ask_again(ctx, "history", "C17", name, fn, make, case["n"], case["k"])
        return
    {"parse_format": judge_parse_format, "by_path": judge_by_path, "malformed": judge_malformed, "lenient": judge_lenient,
     "deep": judge_deep}[monitor](ctx, case)
