"""C05 - every address is the standard encoding of the right script on the right network."""
import hashlib

from .. import gen, probes
from ..core import fresh_str
from ..ref import addr as raddr, secp, base58 as rb58, bech32 as rbech
from ..ref.hashes import sha256, hash160 as ref_hash160, ripemd160 as ref_ripemd_cross, ripemd160_fast

PROP = "C05"
LEVEL = "exploration"
SHARDS = {"quick": 8, "thorough": 16}
TIMEOUT = {"quick": 900, "thorough": 7200}
THOROUGH_MULT = 4   # thorough budgets below are multiplied by this (sized for roughly five minutes on 16 cores)
REQUIRED = {"hash_len": 4000, "address": 2000, "script_template": 200, "pubkey_address": 300, "shared_wallet": 80}
ANCHORS = ['helper:hash160', 'ripemd:ripemd160', 'keys:PublicKey.address', 'base_wallet:BaseWallet.p2pkh_address', 'base_wallet:BaseWallet.p2wpkh_address', 'base_wallet:BaseWallet.p2sh_p2wpkh_address', 'base_wallet:BaseWallet.p2wsh_address', 'base_wallet:BaseWallet.p2sh_p2wsh_address', 'script:Script.raw_serialize', 'helper:h160_to_p2sh_address', 'helper:h256_to_p2wsh_address']
RULE = ("hash clause: EVERY byte length 0..1024 x {zeros, ff, counter, random} (4100 messages, every RIPEMD-160 padding "
        "boundary), judged against OpenSSL RIPEMD160(SHA256) and an own RIPEMD-160; address clause: keys from scalar classes "
        "(1, 2, n-1, both parities, x with leading zero bytes from a committed corpus, random) x {mainnet,testnet} x five "
        "kinds + compressed/uncompressed P2PKH, each decoded by the independent Base58Check/Bech32 decoder; distinct = distinct "
        "(monitor, case) digests"
        " EXTENSIONS: + committed corpus of inputs driving RIPEMD-160 through all-ones / zero internal words, key objects parsed from compressed / uncompressed / hybrid / raw SEC, both forms asked twice in either order, leading-zero Y corpus, every scalar corner enumerated, the address column of wallet listings of K+3 rows per harvested threshold K and purpose, public keys with a coordinate in [n, p) (committed corpus) in every SEC form, request histories, address kinds handed over as fresh (non-literal) strings")
LEVEL_TEXT = ("Each address string produced by the five BaseWallet.*_address methods, PublicKey.address and the h160/h256 "
              "helpers is decoded with an independent decoder and compared with version byte / hrp+witness version and the "
              "HASH160 / SHA-256 of the key or standard script computed by the reference model; script builders are compared "
              "byte for byte with the standard templates; hash160/ripemd160 are compared with OpenSSL for every length 0..1024 "
              "(exhaustive over lengths, sampled over contents).")
LEVEL_NOTE = "Trusted: OpenSSL RIPEMD-160/SHA-256 via hashlib, own RIPEMD-160 (must agree with OpenSSL), reference codecs."
TECHNIQUE = "runtime oracle (independent decoders + reference hashes) on real address/hash calls, exhaustive length sweep"
ASSUMPTIONS = ["ecdsa fallback backend"]
EXHAUSTIVE = False
KINDS = ["p2pkh", "p2wpkh", "p2sh_p2wpkh", "p2wsh", "p2sh_p2wsh"]


def _msg(rnd, ln, pat):
    if pat == "zeros":
        return b"\x00" * ln
    if pat == "ff":
        return b"\xff" * ln
    if pat == "counter":
        return bytes(i & 0xFF for i in range(ln))
    return gen.rbytes(rnd, ln)


def judge_hash_len(ctx, case):
    import btc_hd_wallet.helper as helper
    import btc_hd_wallet.ripemd as ripemd
    m = case["msg"]
    exp_r = ref_ripemd_cross(m, cross=True)
    exp_h = ripemd160_fast(sha256(m))
    bad = []
    got_r = ripemd.ripemd160(m)
    if got_r != exp_r:
        bad.append(("ripemd160", exp_r, got_r))
    got_h = helper.hash160(m)
    if got_h != exp_h:
        bad.append(("hash160", exp_h, got_h))
    ln = len(m)
    tag = "len%%64=%d" % (ln % 64) if ln % 64 in (0, 55, 56, 63) else "len-other"
    return ctx.judge("hash_len", not bad, case, {"ripemd160": exp_r, "hash160": exp_h}, bad,
                     cls="%s|%s" % (tag, case.get("pat", "")), mech="C05.hash_len." + (bad[0][0] if bad else ""))


def _expected(sec, testnet, kind):
    return raddr.KINDS[kind](sec, testnet)


def _decode_components(s):
    d = raddr.decode_address(s)
    if d is None:
        return None
    d = dict(d)
    return d


def _want_components(sec, testnet, kind):
    if kind == "p2pkh":
        return {"enc": "base58", "type": "p2pkh", "testnet": testnet, "hash": ref_hash160(sec)}
    if kind == "p2wpkh":
        return {"enc": "bech32", "type": "witness", "testnet": testnet, "witver": 0, "hash": ref_hash160(sec)}
    if kind == "p2sh_p2wpkh":
        return {"enc": "base58", "type": "p2sh", "testnet": testnet, "hash": ref_hash160(b"\x00\x14" + ref_hash160(sec))}
    ws = b"\x51\x21" + sec + b"\x51\xae"
    if kind == "p2wsh":
        return {"enc": "bech32", "type": "witness", "testnet": testnet, "witver": 0, "hash": sha256(ws)}
    if kind == "p2sh_p2wsh":
        return {"enc": "base58", "type": "p2sh", "testnet": testnet, "hash": ref_hash160(b"\x00\x20" + sha256(ws))}
    raise ValueError(kind)


def judge_address(ctx, case):
    from btc_hd_wallet.base_wallet import BaseWallet
    from btc_hd_wallet.bip32 import PrvKeyNode, PubKeyNode
    k, tn, kind = case["k"], case["testnet"], case["kind"]
    pt = secp.gmul(k)
    sec = secp.ser(pt, True)
    if case.get("route") == "from_extended_key":
        # the wallet (and its master node) come from an extended-key string: network is whatever the prefix says
        from ..ref import bip32 as rb32
        xk = rb32.XKey(k, None, b"\x11" * 32)
        ver = rb32.SLIP132[("pub" if case.get("public") else "prv", "test" if tn else "main", case.get("purpose", 44))]
        w = BaseWallet.from_extended_key(extended_key=xk.xpub(ver) if case.get("public") else xk.xprv(ver))
        node = w.master
    else:
        if case.get("public"):
            node = PubKeyNode(key=sec, chain_code=b"\x11" * 32, testnet=tn)
        else:
            node = PrvKeyNode(key=k.to_bytes(32, "big"), chain_code=b"\x11" * 32, testnet=tn)
        w = BaseWallet(master=node, testnet=tn)
    try:
        got = getattr(w, kind + "_address")(node)
    except Exception as e:  # noqa
        return ctx.judge("address", False, case, _expected(sec, tn, kind), e, cls="%s|raised" % kind, mech="C05.address.raised")
    want = _want_components(sec, tn, kind)
    dec = _decode_components(got) if isinstance(got, str) else None
    bad = []
    if dec != want:
        bad.append(("decoded", want, dec))
    if got != _expected(sec, tn, kind):
        bad.append(("string", _expected(sec, tn, kind), got))
    return ctx.judge("address", not bad, case, want, bad,
                     cls="%s|%s|%s|%s|%s" % (kind, "test" if tn else "main", case.get("ktag", "k"), "pub" if case.get("public") else "prv",
                                             "direct" if case.get("route") != "from_extended_key" else "xkey%d" % case.get("purpose", 44)),
                     mech="C05.address.%s.%s" % (kind, bad[0][0] if bad else ""))


def judge_shared_wallet(ctx, case):
    """ONE wallet object is asked, in sequence, for the five addresses of several DIFFERENT nodes that print the same
    path (parsed roots all print 'M'/'m'; nodes at the same path of different trees): each answer must be for the node
    that was passed."""
    from btc_hd_wallet.base_wallet import BaseWallet
    from btc_hd_wallet.bip32 import PrvKeyNode, PubKeyNode
    from ..ref import bip32 as rb32
    tn = case["testnet"]
    roots = [rb32.XKey(k, None, c) for k, c in case["roots"]]
    w = BaseWallet.from_extended_key(roots[0].xprv(rb32.version_for("prv", tn, 44)) if case["private_wallet"] else roots[0].xpub(rb32.version_for("pub", tn, 44)))
    bad = []
    n_asked = 0
    for rnd_i, xk in enumerate(roots):
        sub_path = case["sub"]
        ref = rb32.derive(xk, sub_path)
        if case["node_kind"] == "pub":
            node = PubKeyNode.parse(xk.xpub(rb32.version_for("pub", tn, 44)), testnet=tn).derive_path(index_list=list(sub_path))
        else:
            node = PrvKeyNode.parse(xk.xprv(rb32.version_for("prv", tn, 44)), testnet=tn).derive_path(index_list=list(sub_path))
        for kind in case["kinds"]:
            got = getattr(w, kind + "_address")(node)
            want = _expected(ref.sec(), tn, kind)
            n_asked += 1
            if got != want:
                bad.append(("%s@root%d" % (kind, rnd_i), want, got))
    return ctx.judge("shared_wallet", not bad, case, "each address belongs to the node passed (%d requests)" % n_asked, bad[:4],
                     cls="shared|%s|%s|sub%d" % ("test" if tn else "main", case["node_kind"], len(case["sub"])),
                     mech="C05.shared_wallet." + (bad[0][0].split("@")[0] if bad else ""))


def judge_pubkey_address(ctx, case):
    """PublicKey.address incl. uncompressed P2PKH, and the helper encoders."""
    from btc_hd_wallet.keys import PrivateKey
    import btc_hd_wallet.helper as helper
    k, tn = case["k"], case["testnet"]
    if case.get("point"):
        # a public key nobody holds the secret of (corpus: a coordinate in [n, p)), handed over in SEC form
        pt = tuple(case["point"])
        K = None
    else:
        pt = secp.gmul(k)
        K = PrivateKey(k.to_bytes(32, "big")).K
    src = case.get("key_source", "private")
    if src != "private":
        # the key object comes from one of the SEC serialisations the parser accepts (compressed, uncompressed, and - with the
        # ecdsa backend - the X9.62 hybrid 06/07 and the raw 64-byte form); a parser that refuses a form is fine
        from btc_hd_wallet.keys import PublicKey
        x, y = pt[0].to_bytes(32, "big"), pt[1].to_bytes(32, "big")
        enc = {"compressed": secp.ser(pt, True), "uncompressed": secp.ser(pt, False), "hybrid": bytes([6 + (pt[1] & 1)]) + x + y, "raw64": x + y}[src]
        try:
            K = PublicKey.parse(enc)
        except Exception as e:  # noqa
            if src in ("compressed", "uncompressed"):
                return ctx.judge("pubkey_address", False, case, "key", e, cls="pk|parse-raised", mech="C05.pubkey_address.parse_raised")
            return ctx.judge("pubkey_address", True, case, "key", e, cls="pk|%s|form-refused" % src, outcome="form-refused")
    bad = []
    order = (True, False) if not case.get("uncompressed_first") else (False, True)
    for comp in order + order:          # (both forms, asked twice in the case's order on the SAME key object)
        sec = secp.ser(pt, comp)
        for typ in ("p2pkh", "p2wpkh"):
            # (the kind is handed over as a string of the caller's own making - equal to, not identical with, any literal)
            got = K.address(compressed=comp, testnet=tn, addr_type=fresh_str(typ) if case.get("uncompressed_first") else typ)
            want = raddr.p2pkh(sec, tn) if typ == "p2pkh" else raddr.p2wpkh(sec, tn)
            if got != want:
                bad.append(("%s|comp=%s" % (typ, comp), want, got))
        if K.h160(compressed=comp) != ref_hash160(sec):
            bad.append(("h160|comp=%s" % comp, ref_hash160(sec), K.h160(compressed=comp)))
    h = case["h160"]
    h32 = case["h256"]
    for name, fn, want in (
        ("h160_to_p2pkh_address", lambda: helper.h160_to_p2pkh_address(h160=h, testnet=tn), rb58.encode_check(bytes([raddr.P2PKH[tn]]) + h)),
        ("h160_to_p2sh_address", lambda: helper.h160_to_p2sh_address(h160=h, testnet=tn), rb58.encode_check(bytes([raddr.P2SH[tn]]) + h)),
        ("h160_to_p2wpkh_address", lambda: helper.h160_to_p2wpkh_address(h160=h, testnet=tn), rbech.segwit_encode(raddr.HRP[tn], 0, h)),
        ("h256_to_p2wsh_address", lambda: helper.h256_to_p2wsh_address(h256=h32, testnet=tn), rbech.segwit_encode(raddr.HRP[tn], 0, h32)),
    ):
        got = fn()
        if got != want:
            bad.append((name, want, got))
    # default network of helpers is mainnet
    if helper.h160_to_p2sh_address(h160=h) != rb58.encode_check(b"\x05" + h) or helper.h160_to_p2pkh_address(h160=h) != rb58.encode_check(b"\x00" + h):
        bad.append(("default_network", "mainnet", "other"))
    try:
        K.address(addr_type="p2sh")
        bad.append(("unsupported_type", "raise", "returned"))
    except ValueError:
        pass
    return ctx.judge("pubkey_address", not bad, case, None, bad, cls="pk|%s|%s|%s" % ("test" if tn else "main", case.get("ktag", "k"), src),
                     mech="C05.pubkey_address." + (bad[0][0].split("|")[0] if bad else ""))


def judge_script_template(ctx, case):
    import btc_hd_wallet.script as scr
    h, h32 = case["h160"], case["h256"]
    want = {
        "p2pkh_script": b"\x76\xa9\x14" + h + b"\x88\xac",
        "p2sh_script": b"\xa9\x14" + h + b"\x87",
        "p2wpkh_script": b"\x00\x14" + h,
        "p2wsh_script": b"\x00\x20" + h32,
    }
    got = {
        "p2pkh_script": scr.p2pkh_script(h160=h).raw_serialize(),
        "p2sh_script": scr.p2sh_script(h160=h).raw_serialize(),
        "p2wpkh_script": scr.p2wpkh_script(h160=h).raw_serialize(),
        "p2wsh_script": scr.p2wsh_script(h256=h32).raw_serialize(),
    }
    bad = [(k, want[k], got[k]) for k in want if want[k] != got[k]]
    # length-prefixed form
    for k, builder, arg in (("p2pkh_script", scr.p2pkh_script, h), ("p2wsh_script", scr.p2wsh_script, h32)):
        ser = builder(arg).serialize()
        if ser != bytes([len(want[k])]) + want[k]:
            bad.append((k + ".serialize", bytes([len(want[k])]) + want[k], ser))
    return ctx.judge("script_template", not bad, case, want, bad, cls="templates", mech="C05.script_template." + (bad[0][0] if bad else ""))


def install_probes(ctx):
    import btc_hd_wallet.helper as helper
    import btc_hd_wallet.ripemd as ripemd
    inst = probes.Installed()

    def on_h160(name, a, kw, res, exc):
        m = kw.get("s", a[0] if a else None)
        if exc is not None or not isinstance(m, (bytes, bytearray)):
            return
        exp = ripemd160_fast(sha256(bytes(m)))
        ctx.judge("probe.hash160", res == exp, {"msg": bytes(m)} if len(m) <= 80 else {"msg_len": len(m), "sha256": sha256(bytes(m))},
                  exp, res, cls="probe|len%d" % min(len(m), 66), mech="C05.probe.hash160")

    def on_rmd(name, a, kw, res, exc):
        m = kw.get("data", a[0] if a else None)
        if exc is not None or not isinstance(m, (bytes, bytearray)):
            return
        exp = ripemd160_fast(bytes(m))
        ctx.judge("probe.ripemd160", res == exp, {"msg": bytes(m)} if len(m) <= 80 else {"msg_len": len(m)}, exp, res,
                  cls="probe", mech="C05.probe.ripemd160")

    h = probes.try_install(ctx, "observe hash160", probes.observe_function, inst, helper, "hash160", on_h160) or []
    ctx.extra["hash160_holders"] = ["%s.%s" % x for x in h]
    probes.try_install(ctx, "observe ripemd160", probes.observe_function, inst, ripemd, "ripemd160", on_rmd)
    return inst


def gen_key(rnd, lzx):
    r = rnd.random()
    if lzx and r < 0.2:
        k = rnd.choice(lzx)
        tag = "K:x-leading-zero"
    else:
        tag, k = gen.scalar(rnd)
    return tag + (":odd" if secp.gmul(k)[1] & 1 else ":even"), k


def run(ctx):
    rnd = ctx.rnd
    lzx = gen.leading_zero_x_scalars() + gen.leading_zero_y_scalars()
    # hash clause first, WITHOUT probes (it calls the functions directly)
    n = 0
    top = 1024
    for ln in range(0, top + 1):
        for pat in ("zeros", "ff", "counter", "random"):
            n += 1
            if ctx.mine(n):
                judge_hash_len(ctx, {"msg": _msg(rnd, ln, pat), "pat": pat})
    if ctx.thorough:
        for _ in range(ctx.scale(0, 40000)):
            judge_hash_len(ctx, {"msg": gen.rbytes(rnd, rnd.randrange(0, 300)), "pat": "random"})
        if ctx.shard == 0:
            judge_hash_len(ctx, {"msg": b"a" * 1000000, "pat": "1MB"})
    # inputs that drive the bundled RIPEMD-160 through rare internal words (all-ones / zero rotation inputs)
    rare = gen.hash160_rare_inputs()
    ctx.extra["hash160_rare_state_corpus"] = len(rare)
    for msg, ev in rare:
        n += 1
        if ctx.mine(n):
            judge_hash_len(ctx, {"msg": msg, "pat": "rare:" + ev})
            judge_hash_len(ctx, {"msg": sha256(msg), "pat": "rare-direct:" + ev})     # (the same block fed to ripemd160 directly)
    inst = install_probes(ctx)
    try:
        corner = gen.scalar_corners() + [("K:x-leading-zero", k) for k in lzx]
        for tag, k in corner:
            for tn in (False, True):
                for kind in KINDS:
                    n += 1
                    if ctx.mine(n):
                        judge_address(ctx, {"k": k, "testnet": tn, "kind": kind, "ktag": tag, "public": bool(n & 1)})
        for _ in range(ctx.scale(480, 90000)):
            tag, k = gen_key(rnd, lzx)
            tn = rnd.random() < 0.5
            pub = rnd.random() < 0.5
            route = rnd.choice(["direct", "direct", "from_extended_key"])
            purpose = rnd.choice([44, 49, 84])
            for kind in KINDS:
                judge_address(ctx, {"k": k, "testnet": tn, "kind": kind, "ktag": tag, "public": pub, "route": route, "purpose": purpose})
        for _ in range(ctx.scale(120, 12000)):
            kinds = list(KINDS)
            rnd.shuffle(kinds)
            judge_shared_wallet(ctx, {"testnet": rnd.random() < 0.5, "private_wallet": rnd.random() < 0.5,
                                      "roots": [(gen_key(rnd, lzx)[1], gen.rbytes(rnd, 32)) for _ in range(rnd.randrange(2, 5))],
                                      "sub": [rnd.choice([0, 1, 5]) for _ in range(rnd.choice([0, 0, 1, 2]))],
                                      "node_kind": rnd.choice(["pub", "prv"]), "kinds": kinds[:rnd.randrange(2, 6)]})
        for _ in range(ctx.scale(400, 40000)):
            tag, k = gen_key(rnd, lzx)
            z = rnd.choice([0, 0, 0, 1, 2, 5])
            judge_pubkey_address(ctx, {"k": k, "testnet": rnd.random() < 0.5, "ktag": tag, "uncompressed_first": rnd.random() < 0.5,
                                       "key_source": rnd.choice(["private", "private", "compressed", "uncompressed", "hybrid", "raw64"]),
                                       "h160": b"\x00" * z + gen.rbytes(rnd, 20 - z), "h256": gen.rbytes(rnd, 32)})
        hc = gen.high_coordinate_points()
        ctx.extra["high_coordinate_point_corpus"] = len(hc)
        for pi, pt in enumerate(hc):
            n += 1
            if ctx.mine(n):
                judge_pubkey_address(ctx, {"k": 0, "point": list(pt), "testnet": bool(pi & 1), "ktag": "K:coordinate>=n", "uncompressed_first": bool(pi & 2),
                                           "key_source": ("compressed", "uncompressed", "hybrid", "raw64")[pi % 4] if pi % 8 < 6 else "compressed",
                                           "h160": gen.rbytes(rnd, 20), "h256": gen.rbytes(rnd, 32)})
        for _ in range(ctx.scale(240, 20000)):
            z = rnd.choice([0, 0, 1, 3, 20])
            judge_script_template(ctx, {"h160": b"\x00" * z + gen.rbytes(rnd, 20 - z), "h256": gen.rbytes(rnd, 32)})
    finally:
        inst.remove()
    # the address column of ONE wallet listing of K+3 rows for every threshold K written down in the code under test
    # (vpkg.harvest / vpkg.longrun; fast mode, see c06.huge_listing_rows): every sampled row carries the address kind of its
    # section (BIP44 P2PKH, BIP49 P2SH-P2WPKH, BIP84 P2WPKH) for the key printed in the same row
    from .. import longrun
    job = 0
    for k, z in longrun.lengths(ctx, wide=False):
        if z <= 4100:
            continue
        for purpose in (49, 44, 84):
            job += 1
            if not ctx.mine_once(job + 3) or not longrun.affordable(ctx, "wallet", z, budget_quick=45.0, k=k):
                continue
            judge_listing_addresses(ctx, {"route": "from_bip39_seed_bytes", "seed": gen.rbytes(rnd, 32), "testnet": bool((job + ctx.seed) & 1),
                                          "purpose_listed": purpose, "account": 0, "start": rnd.choice([0, 11]), "n": z, "k": k})
    ctx.extra["harvested_thresholds"] = longrun.thresholds()
    # K+3 distinct requests, then a second look at the earliest answers (vpkg.longrun.ask_again), K every harvested threshold
    longrun.histories(ctx, "history", "C05", history_specs(), first_job=5)


def history_specs():
    import btc_hd_wallet.helper as helper
    import hashlib as _hl

    def msg(j):
        return b"vp-c05-" + j.to_bytes(5, "big") * (1 + j % 3)

    def h160(j):
        return _hl.sha256(msg(j)).digest()[:20]
    return [
        ("hash160", helper.hash160, lambda j: (msg(j), ripemd160_fast(sha256(msg(j))))),
        ("sha256", helper.sha256, lambda j: (msg(j), sha256(msg(j)))),
        ("h160_to_p2pkh_address", helper.h160_to_p2pkh_address, lambda j: (h160(j), rb58.encode_check(b"\x00" + h160(j)))),
        ("h160_to_p2sh_address", helper.h160_to_p2sh_address, lambda j: (h160(j), rb58.encode_check(b"\x05" + h160(j)))),
        ("h160_to_p2wpkh_address", helper.h160_to_p2wpkh_address, lambda j: (h160(j), rbech.segwit_encode("bc", 0, h160(j)))),
    ]


def judge_listing_addresses(ctx, case):
    from .c06 import huge_listing_rows
    from ..ref import paper as rpaper
    try:
        w, tn, keys, rows = huge_listing_rows(case)
    except Exception as ex:  # noqa
        return ctx.judge("listing_addresses", False, case, "%d rows" % case["n"], ex, cls="listing|raised", mech="C05.listing.raised")
    n, k, purpose = case["n"], case["k"], case["purpose_listed"]
    want = raddr.KINDS[rpaper.ADDR_KIND[purpose]]
    bad, seen = [], 0
    for j, row in enumerate(rows):
        if j % 61 == 0 or j > len(rows) - 4 or (k and (j % k) in (0, 1, 2, k - 1, k - 2)):
            seen += 1
            try:
                exp = want(bytes.fromhex(row[2]), tn)
            except Exception as ex:  # noqa
                exp = repr(ex)
            if row[1] != exp:
                bad.append((j, exp, row[1]))
                break
    ctx.extra["listing_rows_decoded"] = ctx.extra.get("listing_rows_decoded", 0) + seen
    return ctx.judge("listing_addresses", not bad and seen > 0, case, None, bad[:2], cls="listing|bip%d|n%d|%s" % (purpose, n, "test" if tn else "main"),
                     mech="C05.listing.address_kind")


def replay(ctx, monitor, case):
    if monitor in ("hash_len",) or monitor.startswith("probe"):
        if "msg" in case:
            judge_hash_len(ctx, case)
    elif monitor == "address":
        judge_address(ctx, case)
    elif monitor == "shared_wallet":
        case["roots"] = [tuple(r) for r in case["roots"]]
        judge_shared_wallet(ctx, case)
    elif monitor == "pubkey_address":
        judge_pubkey_address(ctx, case)
    elif monitor == "listing_addresses":
        judge_listing_addresses(ctx, case)
    elif monitor == "history":
        from .. import longrun
        for name, fn, make in history_specs():
            if name == case["function"]:
                longrun.ask_again(ctx, "history", "C05", name, fn, make, case["n"], case["k"])
    else:
        judge_script_template(ctx, case)
