"""C03 - mnemonic+passphrase -> seed -> master key follows BIP39/BIP32 for all text."""
import unicodedata

from .. import gen, bridge, probes
from ..core import Inconclusive
from ..ref import bip32 as rb32, bip39 as rb39, secp
from ..ref.hashes import hmac_sha512 as ref_hmac

PROP = "C03"
LEVEL = "exploration"
SHARDS = {"quick": 8, "thorough": 16}
TIMEOUT = {"quick": 900, "thorough": 7200}
REQUIRED = {"seed": 800, "master_key": 200, "constructors": 60, "seed_routes": 100}
ANCHORS = ['bip39:bip39_seed_from_mnemonic', 'bip32:PrvKeyNode.master_key', 'base_wallet:BaseWallet.from_mnemonic', 'base_wallet:BaseWallet.from_entropy_hex', 'base_wallet:BaseWallet.from_bip39_seed_hex', 'base_wallet:BaseWallet.from_bip39_seed_bytes', 'base_wallet:BaseWallet.from_extended_key', 'base_wallet:BaseWallet.new_wallet']
RULE = ("mnemonic/passphrase strings assembled from Unicode building blocks for which NFC, NFD, NFKC and NFKD all differ "
        "(precomposed vs combining, ligatures, Angstrom sign, full/half-width, squared units, Hangul syllables vs jamo, CJK "
        "compatibility ideographs, mis-ordered combining marks, U+3000, astral planes, NUL, lone surrogates, empty, >128-byte "
        "passphrases); seeds of every length 0..128; all five constructors x both networks; distinct = distinct (monitor, case) "
        "digests; a string case is non-trivial when it is non-ASCII or exercises a length class"
        " EXTENSIONS: + boundary-shift twins (same concatenated text cut elsewhere), wrapped text (quotes, brackets, newline, BOM), text-like seed bytes, masters with telling end bytes found by search")
LEVEL_TEXT = ("Each call of bip39_seed_from_mnemonic / master_key / the five wallet constructors is compared with an own PBKDF2 "
              "(RFC 8018 written out over SHA-512) over NFKD text and an own HMAC split; cross-constructor and cross-network "
              "agreement of master key material is checked on the same secrets. Held on K executions over Unicode classes.")
LEVEL_NOTE = ("unicodedata.normalize is trusted for the NFKD tables (cross-checked per string by an own decomposition + "
              "canonical-ordering routine; disagreement => inconclusive). hashlib SHA-512 trusted.")
TECHNIQUE = "runtime oracle (own PBKDF2/HMAC over NFKD) on real seed/master/constructor calls"
ASSUMPTIONS = ["unicodedata tables are correct", "ecdsa fallback backend"]

BLOCKS = [
    "é", "é", "Å", "Å", "Å", "ﬁ", "ﬃ", "Ａｂ３", "ｶﾞ", "ガ",
    "㍍", "㎒", "한글", "한", "豈", "﨎", "豈", "q̣̇", "q̣̇",
    "ṩ", "ṩ", "ṩ", "　", " ", "\U0001d400", "\U0001f600", "\U00020000", "①", "½",
    "™", "ſ", "ϒ", "ΐ", "ẛ̣", "क़", "ཱི", "̈́", "Ω", "µ", "ŉ",
    "あ", "゙", "が", "が", "\u0000", " ", "  ", "\t", "\n", "abandon", "zoo", "TREZOR", "password", "1", "",
    "אַּ", "à֮̀̕b", "가", "가", "Ä́", "Ǖ",
]
JAPANESE = ("こうちょう", "けちゃっぷ", "がんばる", "ぱそこん")


WRAPPERS = [('"', '"'), ("'", "'"), ("`", "`"), ("(", ")"), ("[", "]"), ("{", "}"), ("<", ">"), ("\u201c", "\u201d"), ("\u00ab", "\u00bb"), (" ", " "),
            ("\t", "\n"), ("\n", ""), ("", "\n"), ("", "\r\n"), ("\ufeff", ""), ("\\", "\\"), ("#", ""), ("", "\x00"), ('""', '""'), ("b'", "'"), ("0x", "")]


def gen_text(rnd, kind):
    if rnd.random() < 0.12:
        # text that comes WRAPPED (quotes pasted along from a JSON file, brackets, a trailing newline from a file, a BOM ...): it
        # is part of the text; "tolerating" it changes the wallet
        tag, inner = gen_text(rnd, kind)
        a, b = rnd.choice(WRAPPERS)
        return kind[0] + ":wrapped", a + (inner or "word") + b
    r = rnd.random()
    if kind == "mnemonic" and r < 0.25:
        ent = gen.rbytes(rnd, rnd.choice([16, 20, 24, 28, 32]))
        return "m:valid", rb39.mnemonic(ent)
    if kind == "mnemonic" and r < 0.35:
        return "m:japanese-style", "　".join(rnd.choice(JAPANESE) for _ in range(12))
    if kind == "pass" and r < 0.12:
        return "p:empty", ""
    if kind == "pass" and r < 0.2:
        return "p:long", "".join(rnd.choice(BLOCKS) for _ in range(rnd.randrange(60, 120)))
    if r < 0.3:
        return kind[0] + ":single", rnd.choice(BLOCKS)
    if r < 0.4:
        # random BMP/astral code points (no surrogates)
        s = "".join(chr(rnd.choice([rnd.randrange(0x20, 0x3000), rnd.randrange(0x3000, 0xD7FF),
                                    rnd.randrange(0xE000, 0xFFFE), rnd.randrange(0x10000, 0x2FFFF)]))
                    for _ in range(rnd.randrange(1, 12)))
        return kind[0] + ":randcp", s
    return kind[0] + ":blocks", "".join(rnd.choice(BLOCKS) for _ in range(rnd.randrange(1, 10)))


def _nf_tag(s):
    forms = {f: unicodedata.normalize(f, s) for f in ("NFC", "NFD", "NFKC", "NFKD")}
    distinct = len(set(forms.values()))
    return "nf%d%s" % (distinct, "" if s.isascii() else "u")


def _own_nfkd_guard(ctx, s):
    try:
        if rb39.nfkd_own(s) != rb39.nfkd(s):
            raise Inconclusive("own NFKD disagrees with unicodedata on %r" % s)
    except ValueError:
        pass


def judge_seed(ctx, case):
    import btc_hd_wallet.bip39 as b39
    m, p = case["mnemonic"], case["passphrase"]
    try:
        exp = rb39.seed(m, p)
        _own_nfkd_guard(ctx, m)
        _own_nfkd_guard(ctx, p)
        exp_exc = None
    except UnicodeEncodeError as e:  # lone surrogates: a conforming implementation cannot encode either
        exp, exp_exc = None, e
    try:
        got = b39.bip39_seed_from_mnemonic(mnemonic=m, password=p)
        err = None
    except Exception as e:  # noqa
        got, err = None, e
    cls = "%s|%s|%s|%s" % (case["mtag"], case["ptag"], _nf_tag(m), _nf_tag(p))
    if exp_exc is not None:
        return ctx.judge("seed", err is not None, case, "raise (unencodable text)", got, cls=cls, outcome="both-raise",
                         mech="C03.seed.accepted_unencodable")
    if err is not None:
        return ctx.judge("seed", False, case, exp, err, cls=cls, outcome="raised", mech="C03.seed.raised")
    ok = got == exp and len(got) == 64
    # default passphrase == "" route
    if ok and p == "":
        ok = b39.bip39_seed_from_mnemonic(m) == exp
    return ctx.judge("seed", ok, case, exp, got, cls=cls, mech="C03.seed.mismatch")


def judge_master(ctx, case):
    from btc_hd_wallet.bip32 import PrvKeyNode
    seed = case["seed"]
    try:
        exp = rb32.master(seed)
    except rb32.InvalidChild:
        return None
    bad = []
    nodes = {}
    for tn in (False, True):
        try:
            node = PrvKeyNode.master_key(bip39_seed=seed, testnet=tn)
        except Exception as e:  # noqa
            bad.append(("raised", exp.fields(), e))
            break
        nodes[tn] = node
        bad += bridge.compare_node(node, exp, tn, True)
        bad += bridge.compare_strings(node, exp, tn, True)
    if not bad and (bytes(nodes[False].key) != bytes(nodes[True].key) or bytes(nodes[False].chain_code) != bytes(nodes[True].chain_code)):
        bad.append(("network_changes_key", None, None))
    return ctx.judge("master_key", not bad, case, exp.fields(), bad, cls="seedlen%d" % len(seed),
                     mech="C03.master_key." + (bad[0][0] if bad else ""))


def judge_constructors(ctx, case):
    from btc_hd_wallet.base_wallet import BaseWallet
    from btc_hd_wallet.paper_wallet import PaperWallet
    W = PaperWallet if case.get("paper") else BaseWallet
    ent, p = case["entropy"], case["passphrase"]
    mn = rb39.mnemonic(ent)
    seed = rb39.seed(mn, p)
    try:
        exp = rb32.master(seed)
    except rb32.InvalidChild:
        return None
    bad = []
    masters = {}
    for tn in (False, True):
        xprv = exp.xprv(rb32.version_for("prv", tn, case.get("purpose", 44)))
        routes = {
            "from_entropy_hex": lambda: W.from_entropy_hex(entropy_hex=ent.hex() if not case.get("upper") else ent.hex().upper(), password=p, testnet=tn),
            "from_mnemonic": lambda: W.from_mnemonic(mnemonic=mn, password=p, testnet=tn),
            "from_bip39_seed_bytes": lambda: W.from_bip39_seed_bytes(bip39_seed=seed, testnet=tn),
            "from_bip39_seed_hex": lambda: W.from_bip39_seed_hex(bip39_seed=seed.hex() if not case.get("upper") else seed.hex().upper(), testnet=tn),
            "from_extended_key": lambda: W.from_extended_key(extended_key=xprv),
        }
        for name, mk in routes.items():
            try:
                w = mk()
            except Exception as e:  # noqa
                bad.append(("%s.raised" % name, exp.fields(), e))
                continue
            b = bridge.compare_node(w.master, exp, tn, True)
            if b:
                bad.append(("%s.%s" % (name, b[0][0]), b[0][1], b[0][2]))
            if bool(w.testnet) != tn:
                bad.append(("%s.wallet_testnet" % name, tn, w.testnet))
            masters[(name, tn)] = (bytes(w.master.private_key.k), bytes(w.master.chain_code))
            # second hop: what the wallet prints as its master extended private key builds the same wallet again
            for how in ("node", "wallet"):
                try:
                    exported = w.master.extended_private_key() if how == "node" else w.node_extended_private_key(w.master)
                    w2 = W.from_extended_key(extended_key=exported)
                    b2 = bridge.compare_node(w2.master, exp, tn, True)
                    if b2:
                        bad.append(("%s.reimport_of_export(%s).%s" % (name, how, b2[0][0]), b2[0][1], b2[0][2]))
                    if len(exported) != 111:
                        bad.append(("%s.export_length(%s)" % (name, how), 111, len(exported)))
                except Exception as e:  # noqa
                    bad.append(("%s.reimport_of_export(%s).raised" % (name, how), exp.fields(), e))
            if name in ("from_entropy_hex", "from_mnemonic"):
                if w.mnemonic != mn or w.password != p:
                    bad.append(("%s.echo" % name, (mn, p), (w.mnemonic, w.password)))
            else:
                if w.mnemonic is not None or w.password is not None:
                    bad.append(("%s.echo" % name, (None, None), (w.mnemonic, w.password)))
    if not bad and len(set(masters.values())) != 1:
        bad.append(("routes_disagree", None, {str(k): v[0] for k, v in masters.items()}))
    return ctx.judge("constructors", not bad, case, exp.fields(), bad,
                     cls="ent%d|%s|p%d" % (len(ent), "paper" if case.get("paper") else "base", case.get("purpose", 44)),
                     mech="C03.constructors." + (bad[0][0] if bad else ""))


def judge_seed_routes(ctx, case):
    """Arbitrary seed bytes (leading/trailing zero bytes, odd lengths): bytes
    route, hex route (lower/upper) and master-xprv route hold the same master."""
    from btc_hd_wallet.base_wallet import BaseWallet
    seed = case["seed"]
    try:
        exp = rb32.master(seed)
    except rb32.InvalidChild:
        return None
    bad = []
    for tn in (False, True):
        routes = {
            "bytes": lambda: BaseWallet.from_bip39_seed_bytes(bip39_seed=seed, testnet=tn),
            "hex": lambda: BaseWallet.from_bip39_seed_hex(bip39_seed=seed.hex(), testnet=tn),
            "HEX": lambda: BaseWallet.from_bip39_seed_hex(bip39_seed=seed.hex().upper(), testnet=tn),
            "xprv": lambda: BaseWallet.from_extended_key(extended_key=exp.xprv(rb32.version_for("prv", tn, 44))),
        }
        for name, mk in routes.items():
            try:
                w = mk()
            except Exception as e:  # noqa
                bad.append((name + ".raised", exp.fields(), e))
                continue
            b = bridge.compare_node(w.master, exp, tn, True)
            # ... and the key material as the node USES it (private scalar, public key, fingerprint, printed keys)
            b += bridge.compare_strings(w.master, exp, tn, True)
            try:
                if int.from_bytes(bytes(w.master.private_key), "big") != exp.k:
                    b.append(("private_key", exp.k, bytes(w.master.private_key)))
                if w.master.public_key.sec() != exp.sec():
                    b.append(("public_key", exp.sec(), w.master.public_key.sec()))
                if w.master.fingerprint() != exp.fingerprint():
                    b.append(("fingerprint", exp.fingerprint(), w.master.fingerprint()))
            except Exception as e:  # noqa
                b.append(("key_use.raised", None, e))
            if b:
                bad.append(("%s.%s" % (name, b[0][0]), b[0][1], b[0][2]))
    return ctx.judge("seed_routes", not bad, case, exp.fields(), bad, cls="seedroutes|%s|len%d" % (case.get("tag", ""), len(seed)),
                     mech="C03.seed_routes." + (bad[0][0] if bad else ""))


def judge_new_wallet(ctx, case):
    from btc_hd_wallet.base_wallet import BaseWallet
    w = BaseWallet.new_wallet(mnemonic_length=case["words"], password=case["passphrase"], testnet=case["testnet"])
    exp = rb32.master(rb39.seed(w.mnemonic, w.password))
    bad = bridge.compare_node(w.master, exp, case["testnet"], True)
    if w.password != case["passphrase"]:
        bad.append(("password_echo", case["passphrase"], w.password))
    return ctx.judge("new_wallet", not bad, case, exp.fields(), bad, cls="new%d" % case["words"],
                     mech="C03.new_wallet." + (bad[0][0] if bad else ""))


def install_probes(ctx):
    """Adjudicate internal calls too (constructors call these)."""
    import btc_hd_wallet.bip39 as b39
    import btc_hd_wallet.bip32 as b32
    inst = probes.Installed()

    def on_seed(name, a, kw, res, exc):
        m = kw.get("mnemonic", a[0] if a else None)
        p = kw.get("password", a[1] if len(a) > 1 else "")
        if exc is not None or not isinstance(m, str) or not isinstance(p, str):
            return
        try:
            exp = rb39.seed(m, p)
        except UnicodeEncodeError:
            return
        ctx.judge("probe.bip39_seed_from_mnemonic", res == exp, {"mnemonic": m, "passphrase": p}, exp, res,
                  cls="probe", mech="C03.probe.seed")

    def on_master(name, a, kw, res, exc):
        seed = kw.get("bip39_seed", a[1] if len(a) > 1 else None)
        if exc is not None or not isinstance(seed, (bytes, bytearray)):
            return
        try:
            exp = rb32.master(bytes(seed))
        except rb32.InvalidChild:
            return
        tn = kw.get("testnet", a[2] if len(a) > 2 else False)
        bad = bridge.compare_node(res, exp, tn, True)
        ctx.judge("probe.master_key", not bad, {"seed": bytes(seed), "testnet": tn}, exp.fields(), bad, cls="probe",
                  mech="C03.probe.master_key")

    holders = probes.try_install(ctx, "observe bip39_seed_from_mnemonic", probes.observe_function, inst, b39, "bip39_seed_from_mnemonic", on_seed) or []
    ctx.extra["seed_fn_holders"] = ["%s.%s" % h for h in holders]
    probes.try_install(ctx, "observe master_key", probes.observe_method, inst, b32.PrvKeyNode, "master_key", on_master)
    return inst


def run(ctx):
    rnd = ctx.rnd
    inst = install_probes(ctx)
    try:
        # enumerated: every single building block as mnemonic and as passphrase
        n = 0
        for b in BLOCKS:
            for other in ("abandon about", ""):
                n += 1
                if ctx.mine(n):
                    judge_seed(ctx, {"mnemonic": b, "passphrase": other, "mtag": "m:single", "ptag": "p:fixed"})
                    judge_seed(ctx, {"mnemonic": "legal winner thank year wave sausage worth useful legal winner thank yellow",
                                     "passphrase": b, "mtag": "m:valid", "ptag": "p:single"})
        # lone surrogates
        for s in ("\ud800", "a\udfffb", "\udc00\ud800"):
            n += 1
            if ctx.mine(n):
                judge_seed(ctx, {"mnemonic": s, "passphrase": "", "mtag": "m:surrogate", "ptag": "p:empty"})
                judge_seed(ctx, {"mnemonic": "zoo", "passphrase": s, "mtag": "m:ascii", "ptag": "p:surrogate"})
        prev = None
        for _ in range(ctx.scale(1300, 150000)):
            mtag, m = gen_text(rnd, "mnemonic")
            ptag, p = gen_text(rnd, "pass")
            if prev is not None and rnd.random() < 0.3:
                # back-to-back twins of the previous request (a result remembered under an incomplete key would repeat)
                pm, pp = prev
                t = rnd.choice(["same-m", "same-p", "swap", "nfc-of-prev", "nfd-of-prev", "shift-right", "shift-left", "shift-right", "shift-left"])
                if t in ("shift-right", "shift-left"):
                    # the SAME concatenated text, cut at another place: some characters move from the passphrase to the end
                    # of the mnemonic or back (a result remembered under mnemonic+passphrase without a separator would repeat);
                    # done on the NFKD forms so that a combining mark can travel alone
                    nm, np_ = unicodedata.normalize("NFKD", pm), unicodedata.normalize("NFKD", pp)
                    if t == "shift-right" and np_:
                        k = rnd.randrange(1, len(np_) + 1)
                        m, p, mtag, ptag = nm + np_[:k], np_[k:], "m:twin-shift", "p:twin-shift"
                    elif nm:
                        k = rnd.randrange(1, len(nm) + 1)
                        m, p, mtag, ptag = nm[:-k], nm[-k:] + np_, "m:twin-shift", "p:twin-shift"
                elif t == "same-m":
                    m, mtag = pm, "m:twin"
                elif t == "same-p":
                    p, ptag = pp, "p:twin"
                elif t == "swap":
                    m, p, mtag, ptag = pp or "x", pm, "m:twin-swap", "p:twin-swap"
                elif t == "nfc-of-prev":
                    m, p, mtag, ptag = unicodedata.normalize("NFC", pm), unicodedata.normalize("NFC", pp), "m:twin-nfc", "p:twin-nfc"
                else:
                    m, p, mtag, ptag = unicodedata.normalize("NFD", pm), unicodedata.normalize("NFKC", pp), "m:twin-nfd", "p:twin-nfkc"
            prev = (m, p)
            judge_seed(ctx, {"mnemonic": m, "passphrase": p, "mtag": mtag, "ptag": ptag})
        # seeds of every length 0..128 (enumerated), then random lengths
        for ln in range(0, 129):
            n += 1
            if ctx.mine(n):
                judge_master(ctx, {"seed": gen.rbytes(rnd, ln)})
                judge_master(ctx, {"seed": b"\x00" * ln})
        for _ in range(ctx.scale(200, 30000)):
            judge_master(ctx, {"seed": gen.rbytes(rnd, rnd.choice([16, 32, 64, 64, 64, rnd.randrange(0, 200)]))})
        for j in range(ctx.scale(160, 20000)):
            ln = rnd.choice([16, 32, 64, 64, 64, rnd.randrange(1, 129)])
            kind = rnd.choice(["lead0", "lead0", "trail0", "random", "zero", "ff"])
            z = rnd.randrange(1, min(ln, 5) + 1)
            sd = {"lead0": b"\x00" * z + gen.rbytes(rnd, ln - z), "trail0": gen.rbytes(rnd, ln - z) + b"\x00" * z,
                  "random": gen.rbytes(rnd, ln), "zero": b"\x00" * ln, "ff": b"\xff" * ln}[kind]
            judge_seed_routes(ctx, {"seed": sd, "tag": kind})
        # masters whose key / chain code has a telling byte at an end (01 = WIF compression flag, 00 = pad byte, 02/03 =
        # SEC prefix, blank/newline = what strip() removes): found by search, then through every constructor route
        wants = [("k_last", 0x01), ("k_last", 0x00), ("k_first", 0x00), ("k_first", 0x02), ("k_first", 0x03), ("k_last", 0x20),
                 ("k_last", 0x0A), ("c_first", 0x00), ("c_last", 0x00), ("c_last", 0x01), ("c_last", 0x20), ("k_first", 0x04)]
        for wi, want in enumerate(wants * (1 if not ctx.thorough else 6)):
            n += 1
            if not ctx.mine(n):
                continue
            sd = gen.special_master_seed(rnd, want)
            if sd is None:
                continue
            judge_seed_routes(ctx, {"seed": sd, "tag": "%s=%02x" % want})
            judge_master(ctx, {"seed": sd})
        # seeds whose BYTES happen to be text: ASCII hex digits (a "brain" seed = hexdigest().encode()), decimal digits,
        # Base58/Base64 characters, blanks, a UTF-8 sentence, a printed xprv - every byte string of legal length is a seed
        # and must be used as it is, never re-interpreted
        for j in range(ctx.scale(96, 8000)):
            kind = ("texthex", "textHEX", "textdigits", "textb64", "textblank", "textutf8", "textmixedhexblank", "textxprv")[j % 8]
            ln = rnd.choice([16, 32, 64, 64, 2 * rnd.randrange(8, 33)])
            if kind == "texthex":
                sd = gen.rbytes(rnd, ln // 2).hex().encode()
            elif kind == "textHEX":
                sd = gen.rbytes(rnd, ln // 2).hex().upper().encode()
            elif kind == "textdigits":
                sd = "".join(rnd.choice("0123456789") for _ in range(ln)).encode()
            elif kind == "textb64":
                import base64
                sd = base64.b64encode(gen.rbytes(rnd, ln))[:ln]
            elif kind == "textblank":
                sd = bytes(rnd.choice(b" \t\n\r") for _ in range(ln))
            elif kind == "textutf8":
                sd = ("correct horse battery staple \u00e9\u4e2d " * 4).encode()[:ln]
            elif kind == "textmixedhexblank":
                h_ = gen.rbytes(rnd, ln // 2 - 2).hex()
                sd = (" " + h_[:10] + " " + h_[10:] + "\n ").encode()
            else:
                sd = rb32.master(gen.rbytes(rnd, 32)).xprv(rb32.version_for("prv", False, 44)).encode()[:64]
            judge_seed_routes(ctx, {"seed": sd, "tag": kind})
            judge_master(ctx, {"seed": sd})
        for j in range(ctx.scale(64, 6000)):
            ptag, p = gen_text(rnd, "pass")
            judge_constructors(ctx, {"entropy": gen.rbytes(rnd, rnd.choice([16, 20, 24, 28, 32])), "passphrase": p,
                                     "paper": bool(j & 1), "upper": j % 5 == 0, "purpose": rnd.choice([44, 49, 84])})
        for j in range(ctx.scale(16, 800)):
            judge_new_wallet(ctx, {"words": [12, 15, 18, 21, 24][j % 5], "passphrase": gen_text(rnd, "pass")[1].replace("\x00", ""),
                                   "testnet": bool(j & 1)})
    finally:
        inst.remove()


def replay(ctx, monitor, case):
    if monitor in ("seed", "probe.bip39_seed_from_mnemonic"):
        case.setdefault("mtag", "m"), case.setdefault("ptag", "p")
        judge_seed(ctx, case)
    elif monitor in ("master_key", "probe.master_key"):
        judge_master(ctx, case)
    elif monitor == "constructors":
        judge_constructors(ctx, case)
    elif monitor == "seed_routes":
        judge_seed_routes(ctx, case)
    else:
        judge_new_wallet(ctx, case)
