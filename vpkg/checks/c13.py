"""C13 - derivation is a pure function of root key and path, whatever happened before.

History + schedule monitor.  Every public-API call made by a random program on
SHARED wallet/node objects is logged at the client boundary and judged alone
against a stateless recomputation from the root by the reference model.  In the
concurrent workload several threads run such programs on the same objects
while a sys.monitoring LINE callback injects yields between any two statements
of btc_hd_wallet code.
"""
import json
import sys
import threading

from .. import gen, bridge, probes, inject
from ..ref import bip32 as rb32, bip85 as rb85, addr as raddr, paper as rpaper, path as rpath, secp

PROP = "C13"
LEVEL = "exploration"
SHARDS = {"quick": 8, "thorough": 16}
TIMEOUT = {"quick": 1500, "thorough": 10800}
REQUIRED = {"seq.event": 3000, "thr.event": 1500, "preempt.event": 800, "root_unchanged": 100, "concat": 100, "generator": 200, "capacity": 1}
ANCHORS = ['base_wallet:BaseWallet.by_path', 'base_wallet:BaseWallet.address_generator', 'bip32:PrvKeyNode.ckd', 'bip32:PubKeyNode.ckd', 'bip32:PubKeyNode.generate_children', 'bip32:PubKeyNode.derive_path', 'base_wallet:BaseWallet.node_extended_keys', 'paper_wallet:PaperWallet.generate']
RULE = ("random programs of 50-500 API calls (by_path, ckd, generate_children, derive_path, address generator next/send, five "
        "address kinds, node_extended_keys, extended keys, str, fingerprint, BIP85, generate/json/wasabi_json) over a pool of "
        "shared wallets (private, watch-only twin, watch-only at an exported account) with deliberate repeats, reversed "
        "orders, hardened/normal index twins (i and i+2^31) and reuse of returned children as subjects; the same programs run "
        "from 2-8 threads on the same objects under seeded LINE-level yield injection and a 1us switch interval; distinct = "
        "distinct (monitor, case) digests plus distinct interleaving signatures"
        " EXTENSIONS: + related consecutive by_path requests, capacity scenarios (2^14+600 real, 2^19+600 private and 2^18+600 public in fast mode; thorough up to 2^21+600) with two held children and a running generator, deterministic single-preemption sweep, listings of the same children through the caller's own callables sharing a qualified name (callable_pairs), listing intervals in every range() form (empty, reversed, stepped down / up) on shared nodes")
LEVEL_TEXT = ("Every event of every history is compared with a stateless recomputation from the root (reference model), so no "
              "result may depend on earlier calls, their order or multiplicity; concatenation, generator stepping, root-key "
              "immutability, per-node identity (icontract snapshot on ckd) and children-count conservation are checked; "
              "schedules are sampled (thread switches observed inside btc_hd_wallet code are counted and interleaving "
              "signatures reported), not enumerated.")
LEVEL_NOTE = ("Trusted: reference model. CPython's GIL makes single bytecodes atomic, so the interleavings explored are at "
              "statement granularity (those the program can actually have). Schedules and histories are sampled.")
TECHNIQUE = "offline history checker with stateless reference oracle + sys.monitoring yield injection across threads + icontract state contracts"
ASSUMPTIONS = ["ecdsa fallback backend"]
H = 1 << 31
ADDR_KINDS = ["p2pkh", "p2wpkh", "p2sh_p2wpkh", "p2wsh", "p2sh_p2wsh"]


class Handle:
    __slots__ = ("node", "path", "wid")

    def __init__(self, node, path, wid):
        self.node, self.path, self.wid = node, tuple(path), wid


class World:
    """Shared objects + the stateless oracle for them."""

    def __init__(self, rnd, tag):
        from btc_hd_wallet.paper_wallet import PaperWallet
        self.tag = tag
        self.testnet = rnd.random() < 0.5
        self.seed = gen.rbytes(rnd, 32)
        self.refroot = {}
        self.wallets = {}
        m = rb32.master(self.seed)
        tn = self.testnet
        self.wallets["prv"] = PaperWallet.from_bip39_seed_bytes(bip39_seed=self.seed, testnet=tn)
        self.refroot["prv"] = m
        self.wallets["pub"] = PaperWallet.from_extended_key(m.xpub(rb32.version_for("pub", tn, 44)))
        self.refroot["pub"] = m.neuter()
        acct_path = [rnd.choice([44, 49, 84]) + H, (1 if tn else 0) + H, rnd.randrange(0, 3) + H]
        acct = rb32.derive(m, acct_path)
        self.wallets["acct"] = PaperWallet.from_extended_key(acct.xpub(rb32.version_for("pub", tn, rnd.choice([44, 49, 84]))))
        self.refroot["acct"] = acct.neuter()
        # twins of the private wallet: an incomplete cache key (missing chain code / key / network / object identity) in the
        # library would make these wallets answer for each other
        from btc_hd_wallet.bip32 import PrvKeyNode
        self.wallets["prv_net"] = PaperWallet.from_bip39_seed_bytes(bip39_seed=self.seed, testnet=not tn)      # same keys, other network
        self.refroot["prv_net"] = m
        cc = gen.rbytes(rnd, 32)
        self.wallets["prv_cc"] = PaperWallet(master=PrvKeyNode(key=rb32.ser256(m.k), chain_code=cc, testnet=tn), testnet=tn)   # same key, other chain code
        self.refroot["prv_cc"] = rb32.XKey(m.k, None, cc)
        k2 = rnd.randrange(1, secp.N)
        self.wallets["prv_k"] = PaperWallet(master=PrvKeyNode(key=rb32.ser256(k2), chain_code=m.c, testnet=tn), testnet=tn)    # same chain code, other key
        self.refroot["prv_k"] = rb32.XKey(k2, None, m.c)
        self.wallets["pub_cc"] = PaperWallet.from_extended_key(self.refroot["prv_cc"].xpub(rb32.version_for("pub", tn, 44)))   # same pubkey, other chain code
        self.refroot["pub_cc"] = self.refroot["prv_cc"].neuter()
        # the PRIVATE twin of a derived node: the account key of the first wallet imported as a root of its own (same key, chain
        # code, depth, child number and parent fingerprint as the node the first wallet derives - equal by every field, at a
        # different place in a different tree)
        self.wallets["prv_acct"] = PaperWallet.from_extended_key(acct.xprv(rb32.version_for("prv", tn, 44)))
        self.refroot["prv_acct"] = acct
        self.net = {w: tn for w in self.wallets}
        self.net["prv_net"] = not tn
        self.wids = list(self.wallets)
        self.cache = {}
        self.cache_lock = threading.Lock()
        self.base = [Handle(self.wallets[w].master, (), w) for w in self.wids]
        try:
            # ... and that derived node itself, so that both twins are asked for the same children
            self.base.append(Handle(self.wallets["prv"].master.derive_path(index_list=list(acct_path)), tuple(acct_path), "prv"))
        except Exception:  # noqa
            pass
        self.root_xprv = m.xprv(rb32.version_for("prv", tn, 44))
        self.touched = {}       # id(node) -> Handle, for quiescent checks
        self.ckd_ok = {}        # id(node) -> successful ckd count (probe)
        self.count_lock = threading.Lock()

    def private(self, wid):
        return wid.startswith("prv")

    def mark(self, wid):
        return "m" if wid.startswith("prv") else "M"

    def ref(self, wid, path):
        key = (wid, tuple(path))
        with self.cache_lock:
            hit = self.cache.get(key)
        if hit is not None:
            return hit
        # longest cached prefix
        node, k = self.refroot[wid], 0
        for j in range(len(path) - 1, 0, -1):
            with self.cache_lock:
                h = self.cache.get((wid, tuple(path[:j])))
            if h is not None:
                node, k = h, j
                break
        for j in range(k, len(path)):
            node = rb32.ckd_priv(node, path[j]) if node.k is not None else rb32.ckd_pub(node, path[j])
            with self.cache_lock:
                self.cache[(wid, tuple(path[:j + 1]))] = node
        return node


def _custom_addr_fncs():
    """Address functions of the CALLER's own making (address_generator / group take any callable): two different ones that share
    their name and qualified name, as two inline lambdas in one function do."""
    fa = lambda node: "A|" + node.public_key.sec(compressed=True).hex()       # noqa: E731
    fb = lambda node: "B|" + node.public_key.sec(compressed=False).hex()      # noqa: E731
    return {"custom-A": fa, "custom-B": fb}


CUSTOM = _custom_addr_fncs()


def exp_address(world, wid, path, kind):
    if kind == "custom-A":
        return "A|" + world.ref(wid, path).sec().hex()
    if kind == "custom-B":
        from ..ref import secp as _secp
        return "B|" + _secp.ser(_secp.parse(world.ref(wid, path).sec()), False).hex()
    return raddr.KINDS[kind](world.ref(wid, path).sec(), world.net[wid])


def exp_version_purpose(path):
    """Bip flavour the library selects: purpose component of the (wallet-relative) path."""
    if path and path[0] in (44 + H, 49 + H, 84 + H):
        return path[0] - H
    return 44


class Runner:
    """Executes one program (in one thread) and judges each event."""

    def __init__(self, ctx, world, rnd, prefix, tid=0):
        self.ctx, self.world, self.rnd, self.prefix, self.tid = ctx, world, rnd, prefix, tid
        self.handles = list(world.base)
        self.gens = []     # (generator, handle, kind, next_index)
        self.seq = 0
        self.log = []

    # ---- judging helpers
    def ev(self, op, subject, args, ok, expected=None, observed=None, mech=None):
        self.seq += 1
        case = {"world": self.world.tag, "thread": self.tid, "seq": self.seq, "op": op, "wallet": subject.wid if subject else None,
                "path": list(subject.path) if subject else None, "args": args, "seed": self.world.seed, "testnet": self.world.net[subject.wid] if subject else self.world.testnet}
        if len(self.log) < 40:
            self.log.append([self.tid, self.seq, op, rpath.fmt(subject.path) if subject else None, args])
        self.ctx.judge(self.prefix + ".event", ok, case, expected, observed, cls="%s|%s|%s" % (self.prefix, op, subject.wid if subject else "w"),
                       mech="C13.%s.%s" % (self.prefix, mech or op))

    def check_node(self, op, subject, args, node, wid, path):
        w = self.world
        try:
            exp = w.ref(wid, path)
        except (rb32.InvalidChild, rb32.HardenedFromPublic):
            return
        bad = bridge.compare_node(node, exp, w.net[wid], w.private(wid))
        if str(node) != rpath.fmt(path, w.mark(wid)):
            bad.append(("str", rpath.fmt(path, w.mark(wid)), str(node)))
        self.ev(op, subject, args, not bad, exp.fields(), bad, mech=op + ("." + bad[0][0] if bad else ""))
        w.touched[id(node)] = Handle(node, path, wid)

    def pick(self):
        r = self.rnd.random()
        if r < 0.25 or len(self.handles) <= 3:
            return self.rnd.choice(self.world.base)
        return self.rnd.choice(self.handles)

    def idx(self, wid, deep=False):
        r = self.rnd.random()
        if r < 0.5:
            i = self.rnd.choice([0, 1, 2, 3, 5])          # few keys: many collisions/repeats
        elif r < 0.7:
            i = self.rnd.choice([H - 1, 7, 19])
        else:
            i = self.rnd.randrange(0, H)
        if self.world.private(wid) and self.rnd.random() < 0.45:
            i += H                                        # hardened twin of the same small number
        return i

    # ---- operations
    def op_ckd(self):
        h = self.pick()
        if len(h.path) >= 9:
            h = self.rnd.choice(self.world.base)
        i = self.idx(h.wid)
        try:
            n = h.node.ckd(index=i)
        except Exception as e:  # noqa
            return self.ev("ckd", h, {"index": i}, False, "node", e, mech="ckd.raised")
        self.check_node("ckd", h, {"index": i}, n, h.wid, h.path + (i,))
        self.handles.append(Handle(n, h.path + (i,), h.wid))

    def related_path(self, wid, prev):
        """A path RELATED to the previous request on the same wallet: one component replaced by a textual extension of
        itself (1 -> 12), by a textual prefix (120 -> 12), by its hardened / normal twin, or by a neighbour; the last
        component changed; the path shortened or extended.  (Whatever remembers the previous request must compare whole
        components, not text.)"""
        path = list(prev)
        if not path:
            return [self.idx(wid)]
        private = self.world.private(wid)
        j = self.rnd.randrange(len(path))
        c = path[j]
        low, hard = c & (H - 1), c & H
        how = self.rnd.choice(["extend", "extend", "prefix", "twin", "neighbour", "last", "shorter", "longer"])
        if how == "extend":
            v = int(str(low) + self.rnd.choice("0123456789"))
            path[j] = (v if v < H else low) | hard
        elif how == "prefix":
            path[j] = (int(str(low)[:-1]) if len(str(low)) > 1 else low + 1) | hard
        elif how == "twin" and private:
            path[j] = c ^ H
        elif how == "neighbour":
            path[j] = (low + 1) % H | hard
        elif how == "last":
            path[-1] = self.idx(wid)
        elif how == "shorter":
            path = path[:-1]
        elif len(path) < 5:
            path.append(self.idx(wid))
        return path

    def op_by_path(self):
        wid = self.rnd.choice(["prv", "prv", "pub", "acct"] + self.world.wids)
        L = self.rnd.randrange(0, 6)
        path = [self.idx(wid) for _ in range(L)]
        last = getattr(self, "_last_by_path", None)
        if last is not None and self.rnd.random() < 0.45:
            wid = last[0]
            path = self.related_path(wid, last[1])
        self._last_by_path = (wid, list(path))
        s = rpath.fmt(path, self.rnd.choice(["m", "M"]))
        if self.rnd.random() < 0.3:
            s = s.replace("'", "h")
        base = self.world.base[self.world.wids.index(wid)]
        try:
            n = self.world.wallets[wid].by_path(s)
        except Exception as e:  # noqa
            return self.ev("by_path", base, {"path": s}, False, "node", e, mech="by_path.raised")
        self.check_node("by_path", base, {"path": s}, n, wid, tuple(path))
        self.handles.append(Handle(n, path, wid))

    def op_derive_path(self):
        h = self.pick()
        a = [self.idx(h.wid) for _ in range(self.rnd.randrange(0, 3))]
        b = [self.idx(h.wid) for _ in range(self.rnd.randrange(0, 3))]
        if len(h.path) + len(a) + len(b) > 11:
            return
        try:
            whole = h.node.derive_path(index_list=a + b)
            parts = h.node.derive_path(index_list=list(a)).derive_path(index_list=list(b))
        except Exception as e:  # noqa
            return self.ev("derive_path", h, {"a": a, "b": b}, False, "node", e, mech="derive_path.raised")
        self.check_node("derive_path", h, {"a": a, "b": b}, whole, h.wid, h.path + tuple(a + b))
        ok = whole == parts and bytes(whole.key) == bytes(parts.key) and str(whole) == str(parts)
        self.ctx.judge("concat", ok, {"world": self.world.tag, "path": list(h.path), "a": a, "b": b, "seed": self.world.seed},
                       "derive_path(a+b) == derive_path(a).derive_path(b)", None, cls="concat|%s|%d+%d" % (h.wid, len(a), len(b)), mech="C13.concat")
        self.handles.append(Handle(whole, h.path + tuple(a + b), h.wid))

    def op_generate_children(self):
        h = self.pick()
        if len(h.path) >= 9:
            return
        s = self.rnd.choice([0, 0, 1, 5, H - 3]) if not self.world.private(h.wid) or self.rnd.random() < 0.6 else self.rnd.choice([H, H + 1, H + 5])
        n = self.rnd.randrange(0, 4)
        # the interval is whatever range() takes: ascending, empty, reversed (empty), stepped down (newest first), stepped up
        form = self.rnd.choice(["asc", "asc", "asc", "reversed", "desc-step", "asc-step2"])
        iv = {"asc": (s, s + n), "reversed": (s + n, s), "desc-step": (s + n - 1, s - 1, -1), "asc-step2": (s, s + 2 * n, 2)}[form]
        if form == "desc-step" and s == 0:
            iv = (s + n, s, -1)
        want_idx = list(range(*iv))
        if any(i >= H for i in want_idx) and not self.world.private(h.wid):
            return
        try:
            kids = h.node.generate_children(interval=iv)
        except Exception as e:  # noqa
            if form != "asc":
                # the documented interval is an ascending (start, end) pair; that range() also takes reversed and stepped ones
                # is incidental - an implementation that REFUSES such a form is as good as one that honours it (what counts
                # is that nothing else comes back)
                self.ctx.extra["listing_interval_forms_refused"] = self.ctx.extra.get("listing_interval_forms_refused", 0) + 1
                return
            return self.ev("generate_children", h, {"interval": list(iv)}, False, "list", e, mech="generate_children.raised")
        if len(kids) != len(want_idx):
            return self.ev("generate_children", h, {"interval": list(iv)}, False, len(want_idx), len(kids), mech="generate_children.count")
        for j, k in enumerate(kids):
            self.check_node("generate_children", h, {"interval": list(iv), "j": j}, k, h.wid, h.path + (want_idx[j],))
        if kids:
            self.handles.append(Handle(kids[-1], h.path + (want_idx[-1],), h.wid))

    def op_address(self):
        h = self.pick()
        kind = self.rnd.choice(ADDR_KINDS)
        w = self.world.wallets[h.wid]
        try:
            got = getattr(w, kind + "_address")(h.node)
        except Exception as e:  # noqa
            return self.ev("address", h, {"kind": kind}, False, "address", e, mech="address.raised")
        want = exp_address(self.world, h.wid, h.path, kind)
        self.ev("address", h, {"kind": kind}, got == want, want, got)

    def op_ext_keys(self):
        h = self.pick()
        w = self.world.wallets[h.wid]
        ref = self.world.ref(h.wid, h.path)
        purpose = exp_version_purpose(h.path)
        net = self.world.net[h.wid]
        try:
            got = w.node_extended_keys(h.node)
        except Exception as e:  # noqa
            return self.ev("node_extended_keys", h, {}, False, "dict", e, mech="node_extended_keys.raised")
        want = {"path": rpath.fmt(h.path, self.world.mark(h.wid)),
                "pub": ref.xpub(rb32.version_for("pub", net, purpose)),
                "prv": ref.xprv(rb32.version_for("prv", net, purpose)) if self.world.private(h.wid) else None}
        self.ev("node_extended_keys", h, {}, got == want, want, got)

    def op_serialise(self):
        h = self.pick()
        ref = self.world.ref(h.wid, h.path)
        tn = self.world.net[h.wid]
        which = self.rnd.choice(["xpub", "xprv", "str", "fingerprint", "parent_fingerprint"])
        try:
            if which == "xpub":
                got, want = h.node.extended_public_key(), ref.xpub(rb32.version_for("pub", tn, 44))
            elif which == "xprv":
                if not self.world.private(h.wid):
                    return
                got, want = h.node.extended_private_key(), ref.xprv(rb32.version_for("prv", tn, 44))
            elif which == "str":
                got, want = str(h.node), rpath.fmt(h.path, self.world.mark(h.wid))
            elif which == "fingerprint":
                got, want = h.node.fingerprint(), ref.fingerprint()
            else:
                got, want = bytes(h.node.parent_fingerprint), ref.pfp
        except Exception as e:  # noqa
            return self.ev(which, h, {}, False, "value", e, mech=which + ".raised")
        self.ev(which, h, {}, got == want, want, got)

    def op_generator(self):
        w = self.world
        r = self.rnd.random()
        if r < 0.3 or not self.gens:
            h = self.pick()
            if len(h.path) >= 9:
                return
            kind = self.rnd.choice(["default"] + ADDR_KINDS + ["custom-A", "custom-B", "custom-B"])
            wal = w.wallets[h.wid]
            if kind.startswith("custom"):
                g = wal.address_generator(h.node, CUSTOM[kind])
            else:
                g = wal.address_generator(h.node) if kind == "default" else wal.address_generator(h.node, getattr(wal, kind + "_address"))
            self.gens.append([g, h, "p2wpkh" if kind == "default" else kind, None])
            return
        ent = self.rnd.choice(self.gens)
        g, h, kind, cur = ent
        if cur is None:
            step, nxt = "next", 0
        elif self.rnd.random() < 0.5:
            step, nxt = "next", cur + 1
        else:
            k = self.rnd.choice([1, 2, 3, 10, 1000])
            step, nxt = "send:%d" % k, cur + k
        if nxt >= H and not w.private(h.wid):
            return
        try:
            got = next(g) if step == "next" else g.send(int(step.split(":")[1]))
        except Exception as e:  # noqa
            self.gens.remove(ent)
            return self.ctx.judge("generator", False, {"world": w.tag, "path": list(h.path), "step": step, "expect_index": nxt, "seed": w.seed},
                                  "tuple", e, cls="gen|raised", mech="C13.generator.raised")
        ent[3] = nxt
        want = (rpath.fmt(h.path + (nxt,), w.mark(h.wid)), exp_address(w, h.wid, h.path + (nxt,), kind))
        self.ctx.judge("generator", tuple(got) == want, {"world": w.tag, "path": list(h.path), "step": step, "expect_index": nxt,
                                                         "kind": kind, "seed": w.seed, "testnet": w.net[h.wid], "wallet": h.wid},
                       want, got, cls="gen|%s|%s" % (step.split(":")[0], h.wid), mech="C13.generator." + step.split(":")[0])

    def op_bip85(self):
        w = self.world
        pw = self.rnd.choice([x for x in w.wids if x.startswith("prv")])
        b = w.wallets[pw].bip85
        m = w.refroot[pw]
        which = self.rnd.choice(["wif", "xprv", "hex", "pwd", "mnemonic"])
        i = self.rnd.choice([0, 1, 2, 7])
        try:
            if which == "wif":
                got, want = b.wif(index=i), rb85.wif(m, i)
            elif which == "xprv":
                got, want = b.xprv(index=i), rb85.xprv(m, i)
            elif which == "hex":
                nb = self.rnd.choice([24, 32, 64])      # sizes shared with pwd / mnemonic word counts: same number under another application
                got, want = b.hex(num_bytes=nb, index=i), rb85.hex_(m, nb, i)
            elif which == "pwd":
                ln = self.rnd.choice([24, 32, 64])
                got, want = b.pwd(pwd_len=ln, index=i), rb85.pwd(m, ln, i)
            else:
                wc = self.rnd.choice([12, 24])
                got, want = b.bip39_mnemonic(word_count=wc, index=i), rb85.mnemonic(m, wc, i)
        except rb32.InvalidChild:
            return
        except Exception as e:  # noqa
            return self.ev("bip85." + which, self.world.base[0], {"index": i}, False, "value", e, mech="bip85.raised")
        self.ev("bip85." + which, self.world.base[0], {"index": i}, got == want, want, got, mech="bip85")
        if self.rnd.random() < 0.5 and not getattr(self, "_in_bip85_pair", False):
            self._in_bip85_pair = True        # immediately another BIP85 request on the same object (back-to-back pairs)
            try:
                self.op_bip85()
            finally:
                self._in_bip85_pair = False

    def op_paper(self):
        w = self.world
        pw = self.rnd.choice([x for x in w.wids if x.startswith("prv")])
        wal = w.wallets[pw]
        m = w.refroot[pw]
        which = self.rnd.choice(["generate", "generate", "wasabi", "json"])
        try:
            if which == "wasabi":
                got = json.loads(wal.wasabi_json())
                want = rpaper.wasabi(m, w.net[pw])
                ok = all(got.get(k) == v for k, v in want.items())
                args = {}
            else:
                acct = self.rnd.choice([0, 0, 1])
                s = self.rnd.choice([0, 1, 5])
                n = self.rnd.randrange(0, 3)
                args = {"account": acct, "interval": [s, s + n]}
                data = wal.generate(account=acct, interval=(s, s + n))
                if which == "json":
                    data = json.loads(wal.json(data=data))
                want = rpaper.generate(m, w.net[pw], acct, s, s + n, None, None, with_bip85=True)
                d = rpaper.diff(want, data)
                ok, got = not d, d
        except rb32.InvalidChild:
            return
        except Exception as e:  # noqa
            return self.ev("paper." + which, w.base[0], {}, False, "value", e, mech="paper.raised")
        self.ev("paper." + which, w.base[0], args, ok, None if ok else want, got, mech="paper." + which)

    def op_bulk(self):
        """Grow one node's children list a lot (bulk generation), then re-issue small requests on it."""
        h = self.rnd.choice(self.world.base + self.handles[-3:])
        if len(h.path) >= 9:
            return
        n = self.rnd.choice([70, 90, 130]) if not self.ctx.thorough else self.rnd.choice([70, 300, 1200])
        s0 = self.rnd.choice([0, 0, 3, 1000])
        try:
            kids = h.node.generate_children(interval=(s0, s0 + n))
        except Exception as e:  # noqa
            return self.ev("bulk", h, {"interval": [s0, s0 + n]}, False, "list", e, mech="bulk.raised")
        for j in self.rnd.sample(range(n), 6):
            self.check_node("bulk", h, {"interval": [s0, s0 + n], "j": j}, kids[j], h.wid, h.path + (s0 + j,))
        for i in (0, 1, 2, self.rnd.randrange(0, 64), self.rnd.randrange(0, n)):
            try:
                c = h.node.ckd(index=i)
            except Exception as e:  # noqa
                self.ev("ckd_after_bulk", h, {"index": i}, False, "node", e, mech="ckd_after_bulk.raised")
                continue
            self.check_node("ckd_after_bulk", h, {"index": i, "children": len(h.node.children)}, c, h.wid, h.path + (i,))

    OPS = [("ckd", 22), ("by_path", 10), ("derive_path", 8), ("generate_children", 6), ("address", 16), ("ext_keys", 8),
           ("serialise", 12), ("generator", 14), ("bip85", 3), ("paper", 1)]

    def step(self):
        r = self.rnd.randrange(100)
        acc = 0
        for name, wgt in self.OPS:
            acc += wgt
            if r < acc:
                return getattr(self, "op_" + name)()

    def run(self, n_ops):
        # deliberate repeats / reversed orders: remember a few (op-state) points and re-issue
        bulk_at = self.rnd.randrange(n_ops) if self.prefix == "seq" else -1
        for k in range(n_ops):
            if k == bulk_at:
                self.op_bulk()
            self.step()
        # re-issue: every handle touched by this runner is re-derived from the root and re-checked
        for h in self.rnd.sample(self.handles, min(len(self.handles), 12)):
            wal = self.world.wallets[h.wid]
            try:
                n = wal.master.derive_path(index_list=list(h.path))
            except Exception as e:  # noqa
                self.ev("rederive", h, {}, False, "node", e, mech="rederive.raised")
                continue
            self.check_node("rederive", h, {}, n, h.wid, h.path)
            # the object obtained earlier still carries the same values
            self.check_node("recheck_old_object", h, {}, h.node, h.wid, h.path)


def quiescent_checks(ctx, world, prefix):
    # root key unchanged
    try:
        got = world.wallets["prv"].master.extended_private_key()
    except Exception as e:  # noqa
        got = e
    ctx.judge("root_unchanged", got == world.root_xprv, {"world": world.tag, "seed": world.seed, "mode": prefix}, world.root_xprv, got,
              cls="root|" + prefix, mech="C13.root_changed")
    for wid in world.wids:
        if wid == "prv":
            continue
        ref = world.refroot[wid]
        node = world.wallets[wid].master
        if world.private(wid):
            ok = int.from_bytes(bytes(node.private_key.k), "big") == ref.k and bytes(node.chain_code) == ref.c and \
                bool(node.testnet) == world.net[wid]
        else:
            ok = bytes(node.key) == ref.sec() and bytes(node.chain_code) == ref.c
        ctx.judge("root_unchanged", ok, {"world": world.tag, "wallet": wid, "mode": prefix}, ref.fields(), bridge.node_obs(node), cls="root|" + wid,
                  mech="C13.root_changed")
    # children bookkeeping (len(children) == successful ckd calls): an OBSERVATION about internal state, not a clause of the
    # property (a library that memoises children would legitimately differ) - reported in the evidence, never a verdict
    differs, checked = 0, 0
    nodes = {id(h.node): h.node for h in world.touched.values()}
    for w in world.wallets.values():
        nodes[id(w.master)] = w.master
    for nid, node in nodes.items():
        checked += 1
        try:
            if len(node.children) != world.ckd_ok.get(nid, 0):
                differs += 1
        except Exception:  # noqa
            differs += 1
    ctx.extra["children_count_checked_nodes"] = ctx.extra.get("children_count_checked_nodes", 0) + checked
    ctx.extra["children_count_differs_from_ckd_calls"] = ctx.extra.get("children_count_differs_from_ckd_calls", 0) + differs


def install_probes(ctx, holder):
    import btc_hd_wallet.bip32 as b32
    inst = probes.Installed()

    def rec(name, ok, self, result, old):
        if name.endswith("(observation)"):
            k = "children_bookkeeping_" + ("as_before" if ok else "differs")
            ctx.extra[k] = ctx.extra.get(k, 0) + 1
            return
        ctx.judge("ckd_state", ok, None if ok else {"contract": name, "parent": bridge.node_obs(self)}, old, None, cls=name, mech="C13." + name)

    def count(name, a, kw, res, exc):
        if exc is None:
            w = holder.get("world")
            if w is not None:
                with w.count_lock:
                    w.ckd_ok[id(a[0])] = w.ckd_ok.get(id(a[0]), 0) + 1

    for cls in (b32.PubKeyNode, b32.PrvKeyNode):
        probes.try_install(ctx, "icontract %s.ckd" % cls.__name__, probes.contract_ckd_state, inst, cls, rec)
        probes.try_install(ctx, "observe %s.ckd" % cls.__name__, probes.observe_method, inst, cls, "ckd", count)
    return inst


def program_rng(ctx, mode, p, seed=None, shard=None):
    """Every program (world + operation sequence) has its own generator, so a witness can be replayed exactly:
    tag 'seq:<seed>:<shard>:<p>:<tier>' identifies it."""
    import random as _random
    return _random.Random("C13/%s/%s/%s/%d/%s" % (mode, ctx.seed if seed is None else seed, ctx.shard if shard is None else shard, p, ctx.tier))


def sequential(ctx, holder, n_programs, tag, only=None, seed=None, shard=None):
    for p in (range(n_programs) if only is None else [only]):
        prnd = program_rng(ctx, "seq", p, seed, shard)
        world = World(prnd, "seq:%s:%s:%d:%s" % (ctx.seed if seed is None else seed, ctx.shard if shard is None else shard, p, ctx.tier))
        holder["world"] = world
        r = Runner(ctx, world, prnd, "seq")
        r.run(prnd.choice([50, 80, 120]) if not ctx.thorough else prnd.choice([50, 150, 500]))
        quiescent_checks(ctx, world, "seq")
        if p == 0 and ctx.shard == 0:
            ctx.extra["sample_history"] = r.log[:25]


def threaded(ctx, holder, n_runs, tag, only=None, seed=None, shard=None):
    import random as _random
    sigs = set()
    tot = {"lines": 0, "yields": 0, "switches_in_repo": 0, "runs": 0, "threads": 0}
    sites = {}
    old = sys.getswitchinterval()
    for p in (range(n_runs) if only is None else [only]):
        prnd = program_rng(ctx, "thr", p, seed, shard)
        world = World(prnd, "thr:%s:%s:%d:%s" % (ctx.seed if seed is None else seed, ctx.shard if shard is None else shard, p, ctx.tier))
        holder["world"] = world
        T = prnd.choice([2, 3, 4, 8])
        runners = [Runner(ctx, world, _random.Random(prnd.getrandbits(64)), "thr", tid=t) for t in range(T)]
        n_ops = prnd.choice([12, 20, 30])
        inj = inject.YieldInjector(prnd.getrandbits(32), prob=prnd.choice([0.03, 0.08, 0.2]),
                                    files=("bip32", "base_wallet", "paper_wallet", "bip85", "keys", "wallet_utils"))
        errs = []

        def body(r):
            try:
                r.run(n_ops)
            except BaseException as e:  # noqa
                errs.append(repr(e))
        threads = [threading.Thread(target=body, args=(r,)) for r in runners]
        sys.setswitchinterval(1e-6)
        inj.start()
        try:
            for t in threads:
                t.start()
            for t in threads:
                t.join(600)
        finally:
            inj.stop()
            sys.setswitchinterval(old)
        if any(t.is_alive() for t in threads):
            ctx.note_inconclusive("threaded run %d did not finish within its watchdog" % p)
            return
        if errs:
            ctx.note_inconclusive("harness thread crashed: %s" % errs[0][:300])
        quiescent_checks(ctx, world, "thr")
        sigs.add(inj.signature())
        tot["lines"] += inj.lines
        tot["yields"] += inj.yields
        tot["switches_in_repo"] += inj.switches_in_repo
        tot["runs"] += 1
        tot["threads"] += T
        for k, v in inj.yield_sites.items():
            sites[k] = sites.get(k, 0) + v
    ctx.extra["thr_line_events"] = ctx.extra.get("thr_line_events", 0) + tot["lines"]
    ctx.extra["thr_injected_yields"] = ctx.extra.get("thr_injected_yields", 0) + tot["yields"]
    ctx.extra["thr_switches_inside_repo_code"] = ctx.extra.get("thr_switches_inside_repo_code", 0) + tot["switches_in_repo"]
    ctx.extra["thr_runs"] = ctx.extra.get("thr_runs", 0) + tot["runs"]
    ctx.extra["thr_threads"] = ctx.extra.get("thr_threads", 0) + tot["threads"]
    ctx.extra["thr_distinct_interleaving_signatures"] = ctx.extra.get("thr_distinct_interleaving_signatures", 0) + len(sigs)
    ckd_sites = {k: v for k, v in sites.items() if k.startswith("ckd:")}
    ctx.extra["thr_yields_inside_ckd_by_line"] = ckd_sites
    for s in sigs:
        ctx.digests.add("sig:" + s[:12])
    if tot["runs"] and tot["switches_in_repo"] == 0:
        ctx.note_inconclusive("no thread switch was observed inside btc_hd_wallet code")


# ------------------------------------------------------------------ systematic single-preemption exploration
PREEMPT_FILES = ("bip32", "base_wallet", "paper_wallet", "bip85", "wallet_utils")


Preempter = inject.Preempter


def _preempt_ops(world, rnd_seed):
    """Menu of operations on SHARED objects; each returns a list of (label, ok, expected, observed)."""
    import random as _random
    w = world
    wal = w.wallets["prv"]
    pubw = w.wallets["pub"]

    def node_ok(node, wid, path):
        exp = w.ref(wid, path)
        bad = bridge.compare_node(node, exp, w.net[wid], w.private(wid))
        if str(node) != rpath.fmt(path, w.mark(wid)):
            bad.append(("str", rpath.fmt(path, w.mark(wid)), str(node)))
        return (not bad, exp.fields(), bad)

    def op_ckd(wid, i):
        def f():
            n = w.wallets[wid].master.ckd(index=i)
            return [("ckd(%d)" % i,) + node_ok(n, wid, (i,))]
        return f

    def op_gen(wid, s, e):
        def f():
            kids = w.wallets[wid].master.generate_children(interval=(s, e))
            out = [("generate_children.count", len(kids) == e - s, e - s, len(kids))]
            for j, kd in enumerate(kids[:e - s]):
                out.append(("generate_children[%d]" % j,) + node_ok(kd, wid, (s + j,)))
            return out
        return f

    def op_by_path(wid, path):
        def f():
            n = w.wallets[wid].by_path(rpath.fmt(path, "m"))
            return [("by_path",) + node_ok(n, wid, tuple(path))]
        return f

    def op_derive(wid, path):
        def f():
            n = w.wallets[wid].master.derive_path(index_list=list(path))
            return [("derive_path",) + node_ok(n, wid, tuple(path))]
        return f

    def op_addrgen(wid, kind, steps):
        def f():
            wl = w.wallets[wid]
            g = wl.address_generator(wl.master, getattr(wl, kind + "_address"))
            out, idx = [], None
            for st in steps:
                idx = 0 if idx is None else idx + (st or 1)
                got = next(g) if not st else g.send(st)
                want = (rpath.fmt((idx,), w.mark(wid)), exp_address(w, wid, (idx,), kind))
                out.append(("address_generator@%d" % idx, tuple(got) == want, want, got))
            return out
        return f

    def op_bip85(which, i):
        def f():
            b = wal.bip85
            m = w.refroot["prv"]
            got, want = (b.wif(index=i), rb85.wif(m, i)) if which == "wif" else (b.hex(num_bytes=32, index=i), rb85.hex_(m, 32, i))
            return [("bip85." + which, got == want, want, got)]
        return f

    def op_ext_keys(wid):
        def f():
            n = w.wallets[wid].master.ckd(index=1)
            got = w.wallets[wid].node_extended_keys(n)
            ref = w.ref(wid, (1,))
            want = {"path": rpath.fmt((1,), w.mark(wid)), "pub": ref.xpub(rb32.version_for("pub", w.net[wid], 44)),
                    "prv": ref.xprv(rb32.version_for("prv", w.net[wid], 44)) if w.private(wid) else None}
            return [("node_extended_keys", got == want, want, got)]
        return f

    def op_group():
        def f():
            keys, rows = wal.bip84(account=0, interval=(0, 2))
            want = rpaper.group(w.refroot["prv"], 84, w.net["prv"], 0, 0, 2)
            return [("bip84", keys == want["account_extended_keys"] and rows == want["groups"], want["groups"][:1], rows[:1])]
        return f
    return {
        "ckd_n": op_ckd("prv", 2), "ckd_h": op_ckd("prv", H + 2), "ckd_pub": op_ckd("pub", 2),
        "gen": op_gen("prv", 0, 4), "gen_pub": op_gen("pub", 1, 4), "by_path": op_by_path("prv", [44 + H, 0, 3]),
        "derive": op_derive("prv", [2, 7]), "derive_pub": op_derive("pub", [2, 7]),
        "addrgen": op_addrgen("prv", "p2wpkh", [0, 0, 3]), "addrgen_pub": op_addrgen("pub", "p2pkh", [0, 2]),
        "bip85_wif": op_bip85("wif", 0), "bip85_hex": op_bip85("hex", 1), "ext_keys": op_ext_keys("prv"), "bip84": op_group(),
    }


def preemption_sweep(ctx, holder, pairs, tag, stride=1):
    import random as _random
    total_points = 0
    parked = {}
    for pi, (an, bn) in enumerate(pairs):
        # 1. how many statements does `a` execute alone?
        def build():
            world = World(_random.Random("C13/preempt/%s/%s" % (an, bn)), "pre:%s|%s" % (an, bn))
            holder["world"] = world
            return world, _preempt_ops(world, 0)
        world, ops = build()
        pre = Preempter(None, PREEMPT_FILES)
        pre.a_ident = threading.get_ident()
        pre.start()
        try:
            ops[an]()
        finally:
            pre.stop()
        n_lines = pre.count
        world, ops = build()          # one world per pair: the shared objects also accumulate the history of earlier interleavings
        for k in range(1, n_lines + 1, stride):
            pre = Preempter(k, PREEMPT_FILES)
            res = {}
            errs = []

            def run_a():
                pre.a_ident = threading.get_ident()
                try:
                    res["a"] = ops[an]()
                except BaseException as e:  # noqa
                    errs.append(("a", e))
                finally:
                    pre.go_b.set()

            def run_b():
                pre.go_b.wait(60)
                try:
                    res["b"] = ops[bn]()
                except BaseException as e:  # noqa
                    errs.append(("b", e))
                finally:
                    pre.b_done.set()
            ta, tb = threading.Thread(target=run_a), threading.Thread(target=run_b)
            pre.start()
            try:
                tb.start()
                ta.start()
                ta.join(120)
                tb.join(120)
            finally:
                pre.stop()
            if ta.is_alive() or tb.is_alive():
                ctx.note_inconclusive("preemption scenario %s|%s@%d did not finish" % (an, bn, k))
                return
            total_points += 1
            if pre.parked_at:
                parked[pre.parked_at] = parked.get(pre.parked_at, 0) + 1
            case = {"world": "pre:%s|%s" % (an, bn), "a": an, "b": bn, "preempt_at_statement": k, "site": pre.parked_at}
            for who, e in errs:
                ctx.judge("preempt.event", False, dict(case, thread=who), "result", e, cls="pre|%s|%s|raised" % (an, bn), mech="C13.preempt.raised")
            for who in ("a", "b"):
                for label, ok, want, got in res.get(who, []):
                    ctx.judge("preempt.event", ok, dict(case, thread=who, op=label), want, got, cls="pre|%s|%s" % (an, bn),
                              mech="C13.preempt." + label.split("(")[0].split("[")[0].split("@")[0])
        quiescent_checks(ctx, world, "pre")
    ctx.extra["preempt_interleavings_enumerated"] = ctx.extra.get("preempt_interleavings_enumerated", 0) + total_points
    sites = ctx.extra.setdefault("preempt_sites", {})
    for k2, v in parked.items():
        sites[k2] = sites.get(k2, 0) + v


def preempt_pairs(ctx):
    names = ["ckd_n", "ckd_h", "ckd_pub", "gen", "gen_pub", "by_path", "derive", "derive_pub", "addrgen", "addrgen_pub",
             "bip85_wif", "bip85_hex", "ext_keys", "bip84"]
    pairs = [(a, b) for a in names for b in names]
    if not ctx.thorough:
        # quick: every operation is the preempted one at least once and the preempting one at least once
        pairs = [("gen", "ckd_n"), ("ckd_n", "gen"), ("gen", "gen"), ("ckd_h", "ckd_n"), ("addrgen", "ckd_n"), ("by_path", "gen"),
                 ("derive", "ckd_n"), ("gen_pub", "ckd_pub"), ("ckd_pub", "gen_pub"), ("addrgen_pub", "gen_pub"), ("bip85_wif", "gen"),
                 ("gen", "bip85_wif"), ("ext_keys", "ckd_n"), ("bip84", "by_path"), ("derive_pub", "ckd_pub"), ("bip85_hex", "bip85_wif")]
    return [p for i, p in enumerate(pairs) if ctx.mine_once(i)]


def judge_capacity(ctx, case):
    """Long-lived process state: one parent node serves N (> 2^14) derivations while the caller keeps two early children, a
    running address generator and their printed data; afterwards the SAME child objects, asked again, must say what they
    said before (path text, parent fingerprint, printed keys, wallet-level keys whose flavour is chosen from the path,
    group row), the generator continues where it was, and a fresh look-up agrees.  A bounded cache / LRU of children / a
    counter that wraps shows only beyond its capacity."""
    from btc_hd_wallet.paper_wallet import PaperWallet
    tn, N, kind = case["testnet"], case["n"], case["kind"]
    m = rb32.master(case["seed"])
    W = PaperWallet.from_bip39_seed_bytes(bip39_seed=case["seed"], testnet=tn)
    coin = 1 if tn else 0
    ppath = [84 + H, coin + H, 0 + H, 0]
    if kind == "private":
        wallet, parent, mark, private = W, W.by_path(rpath.fmt(ppath, "m")), "m", True
        refparent, relpath = rb32.derive(m, ppath), list(ppath)
    else:
        acct = rb32.derive(m, ppath[:3])
        wallet = PaperWallet.from_extended_key(extended_key=acct.xpub(rb32.version_for("pub", tn, 84)))
        parent, mark, private = wallet.by_path("M/0"), "M", False
        refparent, relpath = rb32.derive(m, ppath), [0]

    def observe(node):
        out = {"str": str(node), "pfp": bytes(node.parent_fingerprint), "xpub": node.extended_public_key(),
               "keys": wallet.node_extended_keys(node), "row": [list(r) for r in wallet.group(nodes=[node], addr_fnc=wallet.p2wpkh_address)],
               "addr": wallet.p2wpkh_address(node)}
        if private:
            out["xprv"] = node.extended_private_key()
        return out

    def expect(i):
        ref = rb32.ckd_priv(refparent, i) if private else rb32.ckd_pub(refparent.neuter(), i)
        return {"str": rpath.fmt(relpath + [i], mark), "pfp": refparent.fingerprint(), "xpub": ref.xpub(rb32.version_for("pub", tn, 44)),
                "addr": raddr.p2wpkh(ref.sec(), tn)}
    bad = []
    try:
        held = {i: parent.ckd(index=i) for i in (0, 5)}
        gen_ = wallet.address_generator(parent, wallet.p2wpkh_address)
        first = next(gen_)
        before = {i: observe(n) for i, n in held.items()}
        for i, n in held.items():
            e = expect(i)
            for k in e:
                if before[i][k] != e[k]:
                    bad.append(("before.%s" % k, e[k], before[i][k]))
        done = 0
        import contextlib
        import btc_hd_wallet.bip32 as _b32
        # (fast mode for the long histories: the N derivations in between are made with a constant PRF and memoised ecdsa
        #  calls - only their NUMBER matters here; the held children were derived, and are re-read, with the real ones)
        import time as _time
        t_start = _time.time()
        budget = case.get("budget_s", 100 if ctx.tier == "quick" else 1200)
        with (inject.FastEC([_b32]) if case.get("fast") else contextlib.nullcontext()):
            while done < N and not bad:
                if _time.time() - t_start > budget:
                    # every workload is capped by operations AND time: an implementation whose derivations get slower with
                    # the number of children (a linear look-up, say) is judged on the history it managed within the budget
                    ctx.extra["capacity_runs_cut_short_by_time_budget"] = ctx.extra.get("capacity_runs_cut_short_by_time_budget", 0) + 1
                    break
                chunk = min(4096, N - done)
                if case.get("how", "generate_children") == "generate_children" or (done // 4096) % 2 == 0:
                    parent.generate_children(interval=(100 + done, 100 + done + chunk))
                else:
                    for i in range(100 + done, 100 + done + chunk):
                        parent.ckd(index=i)
                done += chunk
        after = {i: observe(n) for i, n in held.items()}
        for i in held:
            for k in before[i]:
                if after[i][k] != before[i][k]:
                    bad.append(("held_child_%d.%s_changed_after_%d_derivations" % (i, k, N), before[i][k], after[i][k]))
        second = next(gen_)
        e1 = expect(1)
        if tuple(second) != (e1["str"], e1["addr"]) or tuple(first) != (expect(0)["str"], expect(0)["addr"]):
            bad.append(("generator_after_%d_derivations" % N, (e1["str"], e1["addr"]), tuple(second)))
        fresh = parent.ckd(index=0)
        if observe(fresh) != after[0]:
            bad.append(("fresh_vs_held", "equal", "differ"))
    except Exception as ex:  # noqa
        bad.append(("raised", None, ex))
    ctx.extra["capacity_derivations_on_one_parent"] = max(ctx.extra.get("capacity_derivations_on_one_parent", 0), done)
    N = done
    return ctx.judge("capacity", not bad, case, "held children unchanged after N more derivations on their parent", bad[:3],
                     cls="capacity|%s|%s|n%d|%s" % (kind, "test" if tn else "main", N, "fast" if case.get("fast") else "real"), mech="C13.capacity." + (bad[0][0].split(".")[0].split("_after")[0] if bad else ""))


def judge_callable_pairs(ctx, case):
    """One wallet, one parent, several listings of the SAME children through different address functions - the wallet's own
    methods and callables of the caller's making that share a name (two lambdas): what a listing says depends on the function
    it was given, not on the listings served before."""
    from btc_hd_wallet.paper_wallet import PaperWallet
    tn = case["testnet"]
    m = rb32.master(case["seed"])
    W = PaperWallet.from_bip39_seed_bytes(bip39_seed=case["seed"], testnet=tn)
    ppath = [84 + H, (1 if tn else 0) + H, H, 0]
    if case["watch_only"]:
        acct = rb32.derive(m, ppath[:3])
        W = PaperWallet.from_extended_key(extended_key=acct.xpub(rb32.version_for("pub", tn, 84)))
        parent, mark, rel = W.by_path("M/0"), "M", [0]
    else:
        parent, mark, rel = W.by_path(rpath.fmt(ppath, "m")), "m", list(ppath)
    refparent = rb32.derive(m, ppath)
    from ..ref import secp as _secp

    def want(kind, i):
        ref = rb32.ckd_pub(refparent.neuter(), i)
        if kind == "custom-A":
            return "A|" + ref.sec().hex()
        if kind == "custom-B":
            return "B|" + _secp.ser(_secp.parse(ref.sec()), False).hex()
        return raddr.KINDS[kind](ref.sec(), tn)
    bad = []
    try:
        for kind, count, how in case["listings"]:
            fn = CUSTOM[kind] if kind.startswith("custom") else getattr(W, kind + "_address")
            if how == "generator":
                g = W.address_generator(parent, fn)
                got = [next(g) for _ in range(count)]
                got = [(p_, a_) for p_, a_ in got]
            else:
                nodes = [parent.ckd(index=i) for i in range(count)]
                got = [(r[0], r[1]) for r in W.group(nodes=nodes, addr_fnc=fn)]
            for i, (p_, a_) in enumerate(got):
                exp = (rpath.fmt(rel + [i], mark), want(kind, i))
                if (p_, a_) != exp:
                    bad.append(("%s.%s@%d" % (how, kind, i), exp, (p_, a_)))
                    break
            if bad:
                break
    except Exception as ex:  # noqa
        bad.append(("raised", None, ex))
    return ctx.judge("callable_pairs", not bad, case, None, bad[:2], cls="callables|%s|%s" % ("watch" if case["watch_only"] else "full", "test" if tn else "main"),
                     mech="C13.callable_pairs." + (bad[0][0].split("@")[0].split(".")[0] if bad else ""))


def run(ctx):
    holder = {}
    for j in range(ctx.scale(24, 2000)):
        kinds = ["custom-A", "custom-B"] + ctx.rnd.sample(ADDR_KINDS, 2)
        ctx.rnd.shuffle(kinds)
        judge_callable_pairs(ctx, {"seed": gen.rbytes(ctx.rnd, 32), "testnet": bool(j & 1), "watch_only": bool(j & 2),
                                   "listings": [(k_, ctx.rnd.randrange(1, 5), ctx.rnd.choice(["generator", "generator", "group"])) for k_ in kinds]})
    inst = install_probes(ctx, holder)
    try:
        sequential(ctx, holder, ctx.scale(64, 6000), "w")
        threaded(ctx, holder, ctx.scale(32, 1600), "w")
        preemption_sweep(ctx, holder, preempt_pairs(ctx), "w", stride=1)
    finally:
        inst.remove()
    # capacity scenarios run WITHOUT the probes (tens of thousands of derivations; the judged values are read at the API)
    caps = [("public", (1 << 14) + 600, False), ("private", (1 << 19) + 600, True), ("public", (1 << 18) + 600, True)] if not ctx.thorough else \
        [("public", (1 << 14) + 600, False), ("private", (1 << 14) + 600, False), ("public", (1 << 16) + 600, False), ("private", (1 << 16) + 600, False),
         ("public", (1 << 17) + 600, False), ("private", (1 << 21) + 600, True), ("public", (1 << 20) + 600, True), ("private", (1 << 20) + 600, True)]
    for ci, (kind, n, fast) in enumerate(caps):
        if ctx.mine_once(ci + 3):
            judge_capacity(ctx, {"seed": gen.rbytes(ctx.rnd, 32), "testnet": bool(ci & 1), "kind": kind, "n": n, "fast": fast,
                                 "how": ("generate_children", "mixed")[ci % 2]})


def replay(ctx, monitor, case):
    """A witness names its program ('seq:<seed>:<shard>:<p>:<tier>' in case['world']); the same world and operation
    sequence are regenerated from that tag and re-run (several times for threaded programs: the workload is pinned, the
    schedule is re-sampled with the same yield-injection seed)."""
    if monitor == "capacity":
        return judge_capacity(ctx, case)
    if monitor == "callable_pairs":
        case["listings"] = [tuple(x) for x in case["listings"]]
        return judge_callable_pairs(ctx, case)
    holder = {}
    inst = install_probes(ctx, holder)
    try:
        tag = (case or {}).get("world", "") if isinstance(case, dict) else ""
        parts = tag.split(":")
        if tag.startswith("pre:"):
            an, bn = tag[4:].split("|")
            preemption_sweep(ctx, holder, [(an, bn)], "replay")
        elif len(parts) == 5 and parts[0] in ("seq", "thr"):
            mode, seed, shard, p, tier = parts[0], int(parts[1]), int(parts[2]), int(parts[3]), parts[4]
            ctx.tier = tier
            if mode == "seq":
                sequential(ctx, holder, 1, "replay", only=p, seed=seed, shard=shard)
            else:
                for _ in range(5):
                    threaded(ctx, holder, 1, "replay", only=p, seed=seed, shard=shard)
        else:
            sequential(ctx, holder, 8, "replay")
            threaded(ctx, holder, 4, "replay")
    finally:
        inst.remove()
