"""C12 - BIP85 child secrets equal the specified derivation for every app and index."""
from .. import gen, bridge, probes
from ..ref import bip32 as rb32, bip85 as rb85, secp, path as rpath

from ..core import refused

PROP = "C12"
LEVEL = "exploration"
SHARDS = {"quick": 8, "thorough": 16}
TIMEOUT = {"quick": 900, "thorough": 7200}
THOROUGH_MULT = 4   # thorough budgets below are multiplied by this (sized for roughly five minutes on 16 cores)
REQUIRED = {"output": 700, "reject": 150, "bip85_data": 8}
ANCHORS = ['bip85:BIP85DeterministicEntropy.entropy', 'bip85:BIP85DeterministicEntropy.bip39_mnemonic', 'bip85:BIP85DeterministicEntropy.wif', 'bip85:BIP85DeterministicEntropy.xprv', 'bip85:BIP85DeterministicEntropy.hex', 'bip85:BIP85DeterministicEntropy.pwd', 'paper_wallet:PaperWallet.bip85_data', 'wallet_utils:Bip32Path.convert_hardened']
RULE = ("masters: random + boundary scalars; ALL 5 word counts, ALL 49 byte counts 16..64, ALL 67 password lengths 20..86 "
        "(exhaustive) x indexes {0, 1, 2^31-1, random}; WIF and XPRV x same indexes; rejection on both sides of every bound "
        "(word counts, bytes 15/65, length 19/87, index -1, -2^31, 2^31, 2^32, floats, None); the index_list handed to "
        "derive_path is recorded for every call; distinct = distinct (monitor, case) digests"
        " EXTENSIONS: + a warm helper object of another master re-pointed at this master, fractional / non-int indexes, colliding parameters across applications, three calling styles (keywords / positional / mixed) for every request and every refusal, BIP85 master given as a node DERIVED in this process")
LEVEL_TEXT = ("Every BIP85 output of the real API is compared with the reference BIP85 (own HMAC, own BIP32/BIP39/Base64); "
              "a probe on derive_path records the exact index list used by each call, which must be the application's fully "
              "hardened path, and the (application, parameter, index)->path map is checked injective over the whole run; "
              "out-of-range parameters must raise. Parameter spaces are enumerated completely; masters/indexes are sampled.")
LEVEL_NOTE = "Trusted: reference model (self-tested against the BIP85 vectors)."
TECHNIQUE = "runtime oracle on real BIP85 calls + derive_path argument probe (path monitor) + outcome-based rejection monitor"
ASSUMPTIONS = ["ecdsa fallback backend"]
H = 1 << 31


_OBJ = {}


def mk(case):
    """One BIP85 object per master key, REUSED for every request on that master (each result must still depend on the
    request alone); case['fresh'] forces a new object."""
    from btc_hd_wallet.bip85 import BIP85DeterministicEntropy
    key = (case["k"], case["c"], case.get("form", "ctor"), case.get("vpurpose", 44), case.get("mnet", False))
    if case.get("fresh") or key not in _OBJ:
        if len(_OBJ) > 64:
            _OBJ.clear()
        xk = rb32.XKey(case["k"], None, case["c"])
        if case.get("form") == "derived":
            # the key handed to BIP85 is a node object the caller DERIVED in this process (it has a parent chain up to some
            # root): BIP85 works on the key it is given, wherever the object came from
            dpath = [84 + H, H, 3 + H] if case["k"] & 1 else [5, 7]
            try:
                xk2 = rb32.derive(xk, dpath)
                node = bridge.mk_node(xk, case.get("mnet", False), "ctor").derive_path(index_list=list(dpath))
                xk = xk2
            except rb32.InvalidChild:
                node = bridge.mk_node(xk, case.get("mnet", False), "ctor")
        else:
            # master given as an object, or parsed from an extended-key string of any of the six private SLIP-132 flavours
            node = bridge.mk_node(xk, case.get("mnet", False), case.get("form", "ctor"), purpose=case.get("vpurpose", 44))
        if case.get("via") == "from_xprv" and case.get("form") == "str":
            b = BIP85DeterministicEntropy.from_xprv(xprv=xk.xprv(rb32.version_for("prv", case.get("mnet", False), case.get("vpurpose", 44))),
                                                    testnet=case.get("mnet", False))
            node = b.master_node
        else:
            b = BIP85DeterministicEntropy(master_node=node, testnet=case.get("mnet", False))
        _OBJ[key] = (xk, b, node)
    return _OBJ[key]


class PathTap:
    """Record index lists handed to PrvKeyNode.derive_path (icontract-free
    argument probe; the method is inherited from PubKeyNode)."""

    def __init__(self):
        import btc_hd_wallet.bip32 as b32
        self.calls = []
        self.inst = probes.Installed()

        def on(name, a, kw, res, exc):
            il = kw.get("index_list", a[1] if len(a) > 1 else None)
            self.calls.append((id(a[0]), list(il) if il is not None else None))
        try:
            probes.observe_method(self.inst, b32.PubKeyNode, "derive_path", on)
        except (AttributeError, KeyError, TypeError):
            pass

    def close(self):
        self.inst.remove()


def expected(xk, app, param, index):
    if app == "mnemonic":
        return rb85.mnemonic(xk, param, index), rb85.path_mnemonic(param, index)
    if app == "wif":
        return rb85.wif(xk, index), rb85.path_wif(index)
    if app == "xprv":
        return rb85.xprv(xk, index), rb85.path_xprv(index)
    if app == "hex":
        return rb85.hex_(xk, param, index), rb85.path_hex(param, index)
    return rb85.pwd(xk, param, index), rb85.path_pwd(param, index)


STYLES = ("kw", "pos", "mixed")


def call(b85, app, param, index, style="kw"):
    """The three ways a caller can write the same request: all keywords, all positional, parameter positional + index keyword."""
    if style == "pos":
        if app == "mnemonic":
            return b85.bip39_mnemonic(param, index)
        if app == "wif":
            return b85.wif(index)
        if app == "xprv":
            return b85.xprv(index)
        if app == "hex":
            return b85.hex(param, index)
        return b85.pwd(param, index)
    if style == "mixed":
        if app == "mnemonic":
            return b85.bip39_mnemonic(param, index=index)
        if app == "hex":
            return b85.hex(param, index=index)
        if app == "pwd":
            return b85.pwd(param, index=index)
    if app == "mnemonic":
        return b85.bip39_mnemonic(word_count=param, index=index)
    if app == "wif":
        return b85.wif(index=index)
    if app == "xprv":
        return b85.xprv(index=index)
    if app == "hex":
        return b85.hex(num_bytes=param, index=index)
    return b85.pwd(pwd_len=param, index=index)


_PATHMAP = {}


def judge_output(ctx, case, tap):
    xk, b85, node = mk(case)
    app, param, index = case["app"], case.get("param"), case["index"]
    if case.get("repoint"):
        # a WARM helper object of another master (it has served every application once) is pointed at this master by
        # assigning its public attribute - what it answers from then on belongs to the master it now holds
        from btc_hd_wallet.bip85 import BIP85DeterministicEntropy
        other = rb32.XKey((case["k"] % (rb32.secp.N - 2)) + 1, None, case["c"][::-1])
        donor = BIP85DeterministicEntropy(master_node=bridge.mk_node(other, case.get("mnet", False), "ctor"), testnet=case.get("mnet", False))
        for a_, p_ in (("wif", None), ("xprv", None), ("hex", 32), ("pwd", 21), ("mnemonic", 12), (app, param)):
            try:
                call(donor, a_, p_, 0)
                call(donor, a_, p_, index if isinstance(index, int) and 0 <= index < H else 1)
            except Exception:  # noqa
                pass
        donor.master_node = node
        b85 = donor
    try:
        want, want_path = expected(xk, app, param, index)
    except rb32.InvalidChild:
        return None
    tap.calls.clear()
    case.setdefault("style", ctx.rnd.choice(STYLES))
    try:
        got, err = call(b85, app, param, index, case["style"]), None
    except Exception as e:  # noqa
        got, err = None, e
    cls = "%s|%s|i%s" % (app, param if app == "mnemonic" else ("p-edge" if param in (16, 64, 20, 86) else "p"),
                         "0" if index == 0 else ("max" if index == H - 1 else "n"))
    if err is not None:
        return ctx.judge("output", False, case, want, err, cls=cls, outcome="raised", mech="C12.output.raised")
    ctx.judge("output", got == want, case, want, got, cls=cls, mech="C12.output.%s" % app)
    # path monitor: the derivation issued by this call
    mine = [il for nid, il in tap.calls if nid == id(node)]
    if mine:
        # (equal outputs already imply the right key was used; this additionally shows the fully hardened index list itself.
        #  If the library stops routing through derive_path the probe sees nothing and this monitor is simply not reached.)
        ok = len(mine) == 1 and mine[0] == want_path and all(i >= H for i in mine[0])
        ctx.judge("path_monitor", ok, case, want_path, mine, cls="path|" + app, mech="C12.path_monitor.%s" % app)
    # injectivity bookkeeping (per master is irrelevant: the path depends on the triple only)
    if mine:
        key = (app, param, index)
        pstr = rb85.path_str(mine[0]) if all(i >= H for i in mine[0]) else str(mine[0])
        prev = _PATHMAP.get(pstr)
        if prev is not None and prev != key:
            ctx.judge("injective", False, {"path": pstr, "a": prev, "b": key}, "distinct paths", "same path", cls="inj", mech="C12.injective")
        _PATHMAP[pstr] = key


def judge_reject(ctx, case):
    if "style" not in case:
        # every illegal request is written in all three calling styles
        r = True
        for st in STYLES:
            r = judge_reject(ctx, dict(case, style=st)) and r
        return r
    xk, b85, node = mk(case)
    app, param, index = case["app"], case.get("param"), case["index"]
    ok, got, outcome = refused(lambda: call(b85, app, param, index, case["style"]))      # (stable refusal: asked three times in a row)
    mech = "C12.reject.negative_index" if isinstance(index, int) and not isinstance(index, bool) and index < 0 and case["tag"].startswith("index") \
        else "C12.reject.%s" % case["tag"].split(":")[0]
    return ctx.judge("reject", ok, case, "raise", got, cls="reject|%s|%s|%s" % (app, case["tag"], case["style"]), outcome=outcome.split(":")[0], mech=mech)


def judge_bip85_data(ctx, case, tap):
    from btc_hd_wallet.paper_wallet import PaperWallet
    xk = rb32.XKey(case["k"], None, case["c"])
    w = PaperWallet(master=bridge.mk_node(xk, case["testnet"], "ctor"), testnet=case["testnet"])
    tap.calls.clear()
    try:
        data = w.bip85_data()
    except Exception as e:  # noqa
        return ctx.judge("bip85_data", False, case, "dict", e, cls="data|raised", mech="C12.bip85_data.raised")
    derived = [rpath.fmt(il) for nid, il in tap.calls if nid == id(w.master)]
    bad = []
    if derived and list(data.keys()) != derived:
        bad.append(("labels_vs_derived", derived, list(data.keys())))
    from ..ref import paper as rpaper
    try:
        want = rpaper.bip85_block(xk)
        d = rpaper.diff(want, data)
        if d:
            bad.append(("values", d[0][1], d[0][2]))
    except rb32.InvalidChild:
        pass
    return ctx.judge("bip85_data", not bad, case, None, bad, cls="data|%s" % ("test" if case["testnet"] else "main"),
                     mech="C12.bip85_data." + (bad[0][0] if bad else ""))


def gen_master(rnd):
    ktag, k = gen.scalar(rnd)
    return {"k": k, "c": gen.chain_code(rnd)[1], "ktag": ktag, "form": rnd.choice(["ctor", "str", "str", "bytes", "derived", "derived"]),
            "vpurpose": rnd.choice([44, 49, 84]), "mnet": rnd.random() < 0.4, "via": rnd.choice(["ctor", "from_xprv"])}


def idx_set(rnd):
    return [0, 1, H - 1, rnd.randrange(2, H - 1)]


def run(ctx):
    rnd = ctx.rnd
    tap = PathTap()
    try:
        n = 0
        masters = [gen_master(rnd) for _ in range(2 if not ctx.thorough else 24)]
        # make sure every private version flavour is the master of a full parameter sweep over the shards
        masters[0].update({"form": "str", "vpurpose": [44, 49, 84][ctx.shard % 3], "mnet": bool((ctx.shard // 3) % 2)})
        for mi, m in enumerate(masters):
            params = [("mnemonic", w) for w in (12, 15, 18, 21, 24)] + [("hex", b) for b in range(16, 65)] + \
                     [("pwd", ln) for ln in range(20, 87)] + [("wif", None), ("xprv", None)]
            for app, param in params:
                idxs = idx_set(rnd) if app in ("mnemonic", "wif", "xprv") else [rnd.choice([0, 1, H - 1]), rnd.randrange(0, H)]
                for index in idxs:
                    n += 1
                    if ctx.mine(n):
                        c = dict(m)
                        c.update({"app": app, "param": param, "index": index})
                        judge_output(ctx, c, tap)
        for _ in range(ctx.scale(240, 60000)):
            c = gen_master(rnd)
            app = rnd.choice(["mnemonic", "wif", "xprv", "hex", "pwd"])
            param = {"mnemonic": rnd.choice([12, 15, 18, 21, 24]), "hex": rnd.randrange(16, 65), "pwd": rnd.randrange(20, 87)}.get(app)
            c.update({"app": app, "param": param, "index": rnd.choice(idx_set(rnd)), "repoint": rnd.random() < 0.15})
            judge_output(ctx, c, tap)
        # ---- same object, random order, parameters that collide across applications (hex N <-> pwd N <-> words N, same index)
        for _ in range(ctx.scale(24, 3000)):
            m2 = gen_master(rnd)
            seq = []
            for _k in range(rnd.randrange(6, 14)):
                N = rnd.choice([24, 32, 40, 64])
                i = rnd.choice([0, 1, 7])
                seq += rnd.sample([("hex", N, i), ("pwd", N, i), ("mnemonic", rnd.choice([12, 24]), i), ("wif", None, i), ("xprv", None, i),
                                   ("hex", N, i + 1), ("pwd", N, i)], rnd.randrange(2, 4))
            for app, param, index in seq:
                c = dict(m2)
                c.update({"app": app, "param": param, "index": index})
                judge_output(ctx, c, tap)
        # ---- rejection
        m = gen_master(rnd)
        rej = []
        for wc in (0, 1, 11, 13, 14, 16, 23, 25, 48, -12, 12.0, None):
            rej.append(("mnemonic", wc, 0, "word_count"))
        for nb in (0, 1, 15, 65, 66, 128, -16, 16.5, None):
            rej.append(("hex", nb, 0, "num_bytes"))
        for ln in (0, 19, 87, 88, 100, -20, 20.5, None):
            rej.append(("pwd", ln, 0, "pwd_len"))
        bad_idx = [(-1, "index:-1"), (-2, "index:-2"), (-H, "index:-2^31"), (-H + 1, "index:-2^31+1"), (H, "index:2^31"), (H + 1, "index:2^31+1"),
                   (1 << 32, "index:2^32"), ((1 << 32) - 1, "index:2^32-1"), (1.5, "index:float"), (None, "index:None"), (-rnd.randrange(1, H), "index:-random")]
        for app, param in (("mnemonic", 12), ("mnemonic", 24), ("wif", None), ("xprv", None), ("hex", 32), ("pwd", 21)):
            for idx, tag in bad_idx:
                rej.append((app, param, idx, tag))
        for app, param, idx, tag in rej:
            n += 1
            if ctx.mine(n):
                c = dict(m)
                c.update({"app": app, "param": param, "index": idx, "tag": tag})
                judge_reject(ctx, c)
        for _ in range(ctx.scale(80, 8000)):
            c = gen_master(rnd)
            app = rnd.choice(["mnemonic", "wif", "xprv", "hex", "pwd"])
            param = {"mnemonic": 18, "hex": 40, "pwd": 30}.get(app)
            idx = rnd.choice([-rnd.randrange(1, 1 << 33), rnd.randrange(H, 1 << 33)])
            c.update({"app": app, "param": param, "index": idx, "tag": "index:-random" if idx < 0 else "index:>=2^31"})
            judge_reject(ctx, c)
        for j in range(ctx.scale(16, 1500)):
            c = gen_master(rnd)
            c["testnet"] = bool(j & 1)
            judge_bip85_data(ctx, c, tap)
        ctx.judge("injective", True, {"distinct_paths_seen": len(_PATHMAP)}, cls="inj")
        ctx.extra["distinct_bip85_paths"] = len(_PATHMAP)
    finally:
        tap.close()


def replay(ctx, monitor, case):
    tap = PathTap()
    try:
        if monitor == "reject":
            judge_reject(ctx, case)
        elif monitor == "bip85_data":
            judge_bip85_data(ctx, case, tap)
        else:
            judge_output(ctx, case, tap)
    finally:
        tap.close()
