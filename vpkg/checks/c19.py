"""C19 - script and varint wire encodings round-trip with standard minimal pushes."""
from io import BytesIO

from .. import gen
from ..ref import script as rscr

PROP = "C19"
LEVEL = "exploration"
SHARDS = {"quick": 8, "thorough": 16}
TIMEOUT = {"quick": 900, "thorough": 7200}
THOROUGH_MULT = 30   # thorough budgets below are multiplied by this (sized for roughly five minutes on 16 cores)
REQUIRED = {"push_len": 1500, "opcode": 170, "script_roundtrip": 250, "parse_diff": 20000, "varint": 300, "script_history": 300}
ANCHORS = ['script:Script.parse', 'script:Script.raw_serialize', 'script:Script.serialize', 'helper:read_varint', 'helper:encode_varint']
RULE = ("every element length 0..521 (exhaustive) x 3 byte patterns; every non-push opcode byte (0x00, 0x4e..0xff, exhaustive); "
        "random multi-element scripts; EVERY prefix of every generated serialisation, single-byte corruptions and random byte "
        "strings as a differential against a strict parser; varints at and around 0xfc/0xfd/0xffff/0x10000/0xffffffff/2^32/"
        "2^64 plus random and every truncation of their encodings; distinct = distinct (monitor, case) digests"
        " EXTENSIONS: + scripts whose total size sits on the varint thresholds of the length prefix (252/253, 65535/65536/65537, 128 KiB; thorough 16 MiB), elements around 65536 and 2^20 bytes, script histories across refused serialisations, standard templates and their neighbours (extra commands, every prefix, declared length off by -2..+3, two records), one-byte number pushes next to every opcode and m-of-n shapes with data-element counts, request histories, scripts just beyond every harvested byte threshold up to 64 MiB cut inside their last element")
LEVEL_TEXT = ("Each raw_serialize / serialize / parse / encode_varint / read_varint execution is compared with an own strict "
              "codec: push opcodes by length class, refusal above 520 bytes, exact round trip; the parser is run as a "
              "differential over all prefixes and corruptions: it must fail whenever the strict parser fails (input that ends "
              "early) and otherwise return the same commands having consumed exactly the declared bytes.")
LEVEL_NOTE = ("Trusted: reference codec. Zero-length data elements are outside the property's 1..520 range (recorded, not judged). "
              "The library being stricter than the reference on odd-but-complete input is allowed by the statement ('either fails or ...').")
TECHNIQUE = "runtime differential oracle (strict script/varint codec) on real calls, exhaustive length sweep + all-prefix truncation grammar"
ASSUMPTIONS = []


def mk(cmds):
    from btc_hd_wallet.script import Script
    return Script(list(cmds))


def judge_push_len(ctx, case):
    data = case["data"]
    ln = len(data)
    cmds = [0x76, data, 0xAC] if case.get("wrapped") else [data]
    try:
        raw, err = mk(cmds).raw_serialize(), None
    except Exception as e:  # noqa
        raw, err = None, e
    cls = "len=%s" % ("0" if ln == 0 else "1-75" if ln <= 75 else "76-255" if ln <= 255 else "256-520" if ln <= 520 else ">520")
    if ln in (1, 75, 76, 255, 256, 520, 521):
        cls += ":edge%d" % ln
    if ln == 0:
        return ctx.judge("push_len", True, case, "not judged (outside 1..520)", raw if err is None else err, cls=cls, outcome="recorded")
    if ln > 520:
        return ctx.judge("push_len", err is not None, case, "raise", raw, cls=cls, outcome="raised" if err is not None else "returned",
                         mech="C19.serialize.oversize_accepted")
    want = rscr.raw_serialize(cmds)
    if err is not None:
        return ctx.judge("push_len", False, case, want, err, cls=cls, outcome="raised",
                         mech="C19.serialize.push75" if ln == 75 else "C19.serialize.raised")
    bad = []
    if raw != want:
        bad.append(("raw_bytes", want, raw))
    try:
        ser = mk(cmds).serialize()
        if ser != rscr.serialize(cmds):
            bad.append(("serialize", rscr.serialize(cmds), ser))
        st = BytesIO(ser + b"\xee\xee")          # trailing bytes must be left unread
        back = mk([]).parse(st)
        if back.cmds != cmds or not (back == mk(cmds)):
            bad.append(("roundtrip", cmds, back.cmds))
        if st.tell() != len(ser):
            bad.append(("consumed", len(ser), st.tell()))
    except Exception as e:  # noqa
        bad.append(("roundtrip.raised", cmds, e))
    return ctx.judge("push_len", not bad, case, want, bad, cls=cls, mech="C19.push_len." + (bad[0][0] if bad else ""))


def judge_opcode(ctx, case):
    op = case["op"]
    cmds = [op] if not case.get("ctx") else [0x51, op, b"\x01\x02", op]
    bad = []
    try:
        raw = mk(cmds).raw_serialize()
        if raw != rscr.raw_serialize(cmds):
            bad.append(("raw", rscr.raw_serialize(cmds), raw))
        back = mk([]).parse(BytesIO(mk(cmds).serialize()))
        if back.cmds != cmds:
            bad.append(("roundtrip", cmds, back.cmds))
    except Exception as e:  # noqa
        bad.append(("raised", cmds, e))
    return ctx.judge("opcode", not bad, case, None, bad, cls="op|%s" % ("0" if op == 0 else "4e" if op == 0x4E else "hi"),
                     mech="C19.opcode." + (bad[0][0] if bad else ""))


def gen_script(rnd):
    cmds = []
    for _ in range(rnd.randrange(0, 9)):
        r = rnd.random()
        if r < 0.35:
            cmds.append(rnd.choice([0x00] + list(range(0x4E, 0x100))))
        else:
            ln = rnd.choice([1, 2, 20, 32, 33, 65, 74, 75, 76, 77, 100, 255, 256, 257, 300, 520, rnd.randrange(1, 521)])
            cmds.append(gen.rbytes(rnd, ln))
    return cmds


def judge_script_roundtrip(ctx, case):
    cmds = case["cmds"]
    bad = []
    try:
        s = mk(cmds)
        ser = s.serialize()
        if ser != rscr.serialize(cmds):
            bad.append(("serialize", rscr.serialize(cmds), ser))
        st = BytesIO(ser)
        back = mk([]).parse(st)
        if back.cmds != cmds or not (back == s):
            bad.append(("roundtrip", cmds, back.cmds))
        if st.tell() != len(ser):
            bad.append(("consumed", len(ser), st.tell()))
        # __add__ concatenates
        half = len(cmds) // 2
        if (mk(cmds[:half]) + mk(cmds[half:])).raw_serialize() != rscr.raw_serialize(cmds):
            bad.append(("add", None, None))
    except Exception as e:  # noqa
        bad.append(("raised", cmds, e))
    return ctx.judge("script_roundtrip", not bad, case, None, bad, cls="script|n%d|len%s" % (len(cmds), "big" if len(rscr.raw_serialize(cmds)) >= 253 else "small"),
                     mech="C19.script_roundtrip." + (bad[0][0] if bad else ""))


def judge_parse_diff(ctx, case):
    buf = case["buf"]
    try:
        want, used = rscr.parse(buf)
        strict_err = None
    except rscr.ScriptError as e:
        want, used, strict_err = None, None, str(e)
    st = BytesIO(buf)
    try:
        got = mk([]).parse(st).cmds
        err = None
    except Exception as e:  # noqa
        got, err = None, e
        if strict_err is not None:
            try:                       # a refusal has to be stable: the same bytes offered again are refused again
                got, err = mk([]).parse(BytesIO(buf)).cmds, None
            except Exception as e2:  # noqa
                err = e2
    cls = "diff|%s" % case.get("tag", "")
    if strict_err is not None:
        return ctx.judge("parse_diff", err is not None, case, "fail (%s)" % strict_err, got, cls=cls + "|strict-fails",
                         outcome="both-fail" if err is not None else "lib-accepts", mech="C19.parse.truncated_accepted")
    if err is not None:
        # statement allows failing; but a canonical serialisation of a valid script must parse (round-trip clause)
        return ctx.judge("parse_diff", not case.get("canonical"), case, want, err, cls=cls + "|lib-stricter", outcome="lib-fails",
                         mech="C19.parse.rejects_canonical")
    ok = got == want and st.tell() == used
    return ctx.judge("parse_diff", ok, case, {"cmds": want, "consumed": used}, {"cmds": got, "consumed": st.tell()}, cls=cls + "|both-ok",
                     outcome="same", mech="C19.parse.wrong_commands" if got != want else "C19.parse.consumed")


def judge_script_history(ctx, case):
    """A history on LIVE Script objects: serialise, edit `cmds` in place, add, parse, serialise again ... After every
    step the bytes each object serialises to must be the standard encoding of its CURRENT commands (and oversize
    elements must be refused at that moment), whatever was serialised or combined before."""
    objs = {}
    bad = []

    def check(name, step):
        s_ = objs[name]
        cmds = list(s_.cmds)
        try:
            want = rscr.raw_serialize(cmds)
        except rscr.ScriptError:
            want = None
        try:
            got, err = s_.raw_serialize(), None
        except Exception as e:  # noqa
            got, err = None, e
        if want is None:
            if err is None:
                bad.append(("step%d.%s.oversize_serialised" % (step, name), "raise", got[:12]))
            return
        if err is not None:
            bad.append(("step%d.%s.raised" % (step, name), want[:16], err))
            return
        if got != want:
            bad.append(("step%d.%s.stale_or_wrong_bytes" % (step, name), want[:24], got[:24]))
            return
        ser = s_.serialize()
        if ser != rscr.enc_varint(len(want)) + want:
            bad.append(("step%d.%s.serialize" % (step, name), None, None))
            return
        back = mk([]).parse(BytesIO(ser))
        if back.cmds != cmds:
            bad.append(("step%d.%s.roundtrip" % (step, name), cmds[:3], back.cmds[:3]))

    for step, op in enumerate(case["ops"]):
        kind = op[0]
        needs = [op[1]] if kind != "new" else []
        if kind == "add":
            needs.append(op[2])
        if any(nm not in objs for nm in needs):
            continue            # (an earlier parse of an unserialisable script created no object)
        try:
            if kind == "new":
                objs[op[1]] = mk(list(op[2]))
            elif kind == "serialize":
                check(op[1], step)
            elif kind == "append":
                objs[op[1]].cmds.append(op[2])
            elif kind == "replace":
                if objs[op[1]].cmds:
                    objs[op[1]].cmds[op[2] % len(objs[op[1]].cmds)] = op[3]
            elif kind == "pop":
                if objs[op[1]].cmds:
                    objs[op[1]].cmds.pop()
            elif kind == "add":
                objs[op[3]] = objs[op[1]] + objs[op[2]]
            elif kind == "parse":
                try:
                    objs[op[2]] = mk([]).parse(BytesIO(rscr.serialize(list(objs[op[1]].cmds))))
                except rscr.ScriptError:
                    pass
        except Exception as e:  # noqa
            bad.append(("step%d.%s.raised" % (step, kind), None, e))
        if bad:
            break
    for name in list(objs):
        if not bad:
            check(name, len(case["ops"]))
    return ctx.judge("script_history", not bad, case, None, bad[:3], cls="hist|%d" % len(case["ops"]),
                     mech="C19.script_history." + (bad[0][0].split(".")[-1] if bad else ""))


def gen_history(rnd):
    names = ["A", "B", "C", "D"]
    ops = [("new", "A", gen_script(rnd)), ("new", "B", gen_script(rnd))]
    live = ["A", "B"]

    def elem():
        r = rnd.random()
        if r < 0.3:
            return rnd.choice([0x00, 0x51, 0xac, 0x87, 0xae])
        return gen.rbytes(rnd, rnd.choice([1, 20, 33, 74, 75, 76, 77, 255, 256, 520, 521 if r > 0.93 else 32]))
    for _ in range(rnd.randrange(4, 14)):
        r = rnd.random()
        x = rnd.choice(live)
        if r < 0.3:
            ops.append(("serialize", x))
        elif r < 0.5:
            ops.append(("append", x, elem()))
        elif r < 0.62:
            ops.append(("replace", x, rnd.randrange(0, 8), elem()))
        elif r < 0.7:
            ops.append(("pop", x))
        elif r < 0.9:
            y = rnd.choice(live)
            z = rnd.choice(names)
            ops.append(("add", x, y, z))
            if z not in live:
                live.append(z)
        else:
            z = rnd.choice(names)
            ops.append(("parse", x, z))
            if z not in live:
                live.append(z)
    return ops


VARINTS = [0, 1, 0xFB, 0xFC, 0xFD, 0xFE, 0xFF, 0x100, 0xFFFE, 0xFFFF, 0x10000, 0x10001, 0xFFFFFFFE, 0xFFFFFFFF, 1 << 32, (1 << 32) + 1,
           (1 << 63), (1 << 64) - 2, (1 << 64) - 1]
BAD_VARINTS = [1 << 64, (1 << 64) + 1, 1 << 70, -1, -0xFD, -(1 << 64)]


def judge_varint(ctx, case):
    import btc_hd_wallet.helper as h
    v = case["v"]
    if not 0 <= v < 1 << 64:
        try:
            r = h.encode_varint(v)
            ok = False
        except Exception as e:  # noqa
            r, ok = e, True
        return ctx.judge("varint", ok, case, "raise", r, cls="varint|out-of-range", outcome="raised" if ok else "returned", mech="C19.varint.accepted_out_of_range")
    bad = []
    want = rscr.enc_varint(v)
    try:
        enc = h.encode_varint(v)
        if enc != want:
            bad.append(("encode", want, enc))
        st = BytesIO(want + b"\x55")
        back = h.read_varint(st)
        if back != v or st.tell() != len(want):
            bad.append(("read", (v, len(want)), (back, st.tell())))
    except Exception as e:  # noqa
        bad.append(("raised", want, e))
    # every strict truncation of the encoding must fail
    for cut in range(len(want)):
        try:
            r = h.read_varint(BytesIO(want[:cut]))
            bad.append(("truncated_accepted@%d" % cut, "raise", r))
        except Exception:  # noqa
            pass
    w = len(want)
    return ctx.judge("varint", not bad, case, want, bad, cls="varint|w%d%s" % (w, "|edge" if v in VARINTS else ""),
                     mech="C19.varint." + (bad[0][0].split("@")[0] if bad else ""))


def run(ctx):
    rnd = ctx.rnd
    n = 0
    for ln in range(0, 522):
        for pat in ("zeros", "ff", "random"):
            n += 1
            if ctx.mine(n):
                data = b"\x00" * ln if pat == "zeros" else (b"\xff" * ln if pat == "ff" else gen.rbytes(rnd, ln))
                judge_push_len(ctx, {"data": data, "wrapped": pat == "random"})
    # scripts whose TOTAL raw size sits on the varint thresholds of the length prefix (fc | fd xx xx | fe xx xx xx xx): many
    # maximal elements, the remainder filled with one smaller push and single-byte opcodes
    for target in (251, 252, 253, 254, 255, 256, 520, 65534, 65535, 65536, 65537, 65536 + 25, 67993, 131072 + 7) + ((1 << 20, (1 << 24) + 3) if ctx.thorough else ()):
        n += 1
        if not ctx.mine(n):
            continue
        cmds, size = [], 0
        while target - size >= 523 + 1:
            cmds.append(gen.rbytes(rnd, 520))
            size += 523
        rest = target - size
        if rest > 80:
            ln = min(rest - 3, 520)
            cmds.append(gen.rbytes(rnd, ln))
            size += ln + (2 if ln < 256 else 3) if ln > 75 else ln + 1
        cmds += [0x51] * (target - size)              # OP_1 fillers, one byte each
        judge_script_roundtrip(ctx, {"cmds": cmds})
    for ln in (521, 522, 600, 1000, 65535, 65536, 65537, 65536 + 75, 65536 + 76, 65536 + 255, 65536 + 256, 65536 + 520, 65536 + 521, 70000, 131072, 1 << 20):
        n += 1
        if ctx.mine(n):
            judge_push_len(ctx, {"data": b"\x01" * ln})
    for op in [0x00] + list(range(0x4E, 0x100)):
        n += 1
        if ctx.mine(n):
            judge_opcode(ctx, {"op": op})
            judge_opcode(ctx, {"op": op, "ctx": True})
    scripts = []
    for _ in range(ctx.scale(320, 30000)):
        cmds = gen_script(rnd)
        scripts.append(cmds)
        judge_script_roundtrip(ctx, {"cmds": cmds})
    for _ in range(ctx.scale(400, 40000)):
        judge_script_history(ctx, {"ops": gen_history(rnd)})
    # all prefixes + corruptions of a subset (cost is quadratic in length)
    budget = ctx.scale(30000, 3000000)
    for cmds in scripts:
        ser = rscr.serialize(cmds)
        if budget <= 0:
            break
        judge_parse_diff(ctx, {"buf": ser, "tag": "canonical", "canonical": True})
        cuts = range(len(ser)) if len(ser) <= 400 else sorted(set(rnd.randrange(len(ser)) for _ in range(120)) | set(range(0, 12)) | set(range(len(ser) - 12, len(ser))))
        for cut in cuts:
            judge_parse_diff(ctx, {"buf": ser[:cut], "tag": "prefix"})
            budget -= 1
        for _ in range(6):
            i = rnd.randrange(len(ser))
            judge_parse_diff(ctx, {"buf": ser[:i] + bytes([rnd.randrange(256)]) + ser[i + 1:], "tag": "corrupt"})
            budget -= 1
        judge_parse_diff(ctx, {"buf": ser + gen.rbytes(rnd, rnd.randrange(1, 5)), "tag": "trailing"})
    for _ in range(ctx.scale(3000, 300000)):
        ln = rnd.choice([0, 1, 2, 3, 5, 10, 30, 80, 300])
        buf = gen.rbytes(rnd, ln)
        if ln and rnd.random() < 0.5:
            buf = bytes([min(ln - 1 + rnd.choice([-1, 0, 0, 1]), 252) & 0xFF]) + buf[1:]    # plausible length prefix
        judge_parse_diff(ctx, {"buf": buf, "tag": "random"})
    # complete but non-minimal push encodings (PUSHDATA1 for <=75 bytes, PUSHDATA2 for <=255 bytes), with and without trailing bytes
    for _ in range(ctx.scale(600, 60000)):
        parts = []
        for _k in range(rnd.randrange(1, 4)):
            r = rnd.random()
            if r < 0.4:
                ln = rnd.choice([0, 1, 5, 75, rnd.randrange(0, 76)])
                parts.append(b"\x4c" + bytes([ln]) + gen.rbytes(rnd, ln))
            elif r < 0.8:
                ln = rnd.choice([0, 1, 5, 75, 76, 255, rnd.randrange(0, 256)])
                parts.append(b"\x4d" + ln.to_bytes(2, "little") + gen.rbytes(rnd, ln))
            else:
                parts.append(bytes([rnd.choice([0x00, 0x51, 0xac, 0x87])]))
        body = b"".join(parts)
        buf = rscr.enc_varint(len(body)) + body + (gen.rbytes(rnd, rnd.randrange(0, 4)) if rnd.random() < 0.7 else b"")
        judge_parse_diff(ctx, {"buf": buf, "tag": "nonminimal-push"})
    # the STANDARD templates (what almost every real script is - a parser may well treat them specially) and their neighbours:
    # each template alone, with one to three extra commands in front / behind / in the middle, with every prefix cut, and
    # with a declared length that is off by -2..+3 with or without further bytes behind it
    h20, h32, pk33 = gen.rbytes(rnd, 20), gen.rbytes(rnd, 32), b"\x02" + gen.rbytes(rnd, 32)
    templates = {"p2pkh": [0x76, 0xA9, h20, 0x88, 0xAC], "p2sh": [0xA9, h20, 0x87], "p2wpkh": [0x00, h20], "p2wsh": [0x00, h32],
                 "p2tr": [0x51, h32], "p2pk": [pk33, 0xAC], "multisig": [0x51, pk33, 0x51, 0xAE], "nulldata": [0x6A, gen.rbytes(rnd, 8)]}
    extras = [[0x61], [0xAC], [0x75, 0x51], [b"\x01"], [gen.rbytes(rnd, 3)], [0x63, 0x51, 0x67, 0x00, 0x68], [h20], [0x00]]
    for tname, tcmds in sorted(templates.items()):
        variants = [("alone", list(tcmds))]
        for ei, ex in enumerate(extras):
            variants += [("tail%d" % ei, list(tcmds) + ex), ("head%d" % ei, ex + list(tcmds)), ("mid%d" % ei, list(tcmds[:1]) + ex + list(tcmds[1:]))]
        variants.append(("twice", list(tcmds) + list(tcmds)))
        for vname, cmds in variants:
            n += 1
            if not ctx.mine(n):
                continue
            judge_script_roundtrip(ctx, {"cmds": cmds})
            ser = rscr.serialize(cmds)
            body = rscr.raw_serialize(cmds)
            judge_parse_diff(ctx, {"buf": ser, "tag": "template-canonical", "canonical": True})
            for cut in range(len(ser)):
                judge_parse_diff(ctx, {"buf": ser[:cut], "tag": "template-prefix"})
            for d in (-2, -1, 1, 2, 3):
                if len(body) + d >= 0:
                    judge_parse_diff(ctx, {"buf": rscr.enc_varint(len(body) + d) + body, "tag": "template-declared-length-off"})
                    judge_parse_diff(ctx, {"buf": rscr.enc_varint(len(body) + d) + body + gen.rbytes(rnd, 6), "tag": "template-declared-length-off-more-bytes"})
            judge_parse_diff(ctx, {"buf": ser + ser, "tag": "template-two-records"})
    # small number pushes next to every opcode: a one-byte element (values that are also opcodes / small numbers / negative
    # zero) followed by, preceded by and enclosed in every opcode - a serialiser that "normalises" a number push in some
    # context (a multisig m/n, say) writes different bytes there - and the m-of-n shapes with m / n as data elements
    for last in [0x00] + list(range(0x4E, 0x100)):
        n += 1
        if not ctx.mine(n):
            continue
        for v in (0x00, 0x01, 0x02, 0x03, 0x10, 0x11, 0x4F, 0x50, 0x51, 0x60, 0x80, 0x81, 0xFF):
            e = bytes([v])
            judge_script_roundtrip(ctx, {"cmds": [e, last]})
            judge_script_roundtrip(ctx, {"cmds": [last, e]})
            judge_script_roundtrip(ctx, {"cmds": [e, pk33, e, last]})
    for m_, n_, op in ((1, 1, 0xAE), (2, 3, 0xAE), (2, 2, 0xAF), (3, 5, 0xAE), (16, 16, 0xAE), (1, 2, 0xAF)):
        n += 1
        if ctx.mine(n):
            keys = [b"\x02" + gen.rbytes(rnd, 32) for _ in range(min(n_, 3))]
            judge_script_roundtrip(ctx, {"cmds": [bytes([m_])] + keys + [bytes([n_]), op]})
            judge_script_roundtrip(ctx, {"cmds": [0x50 + m_] + keys + [0x50 + n_, op]})
            judge_script_roundtrip(ctx, {"cmds": [bytes([m_])] + keys + [0x50 + n_, op]})
            judge_script_roundtrip(ctx, {"cmds": [0x00, bytes([m_])] + keys + [bytes([n_]), op, 0x87]})
    # crafted truncations (the D3 shapes)
    for buf, tag in ((b"\x15\x14" + b"\xaa" * 5, "short-push"), (b"\xfd", "varint-fd"), (b"\xfe\x01\x00", "varint-fe"), (b"\xff" + b"\x00" * 7, "varint-ff"),
                     (b"\x02\x4c", "pd1-nolen"), (b"\x03\x4d\x05", "pd2-halflen"), (b"\x03\x4c\x05\x01", "pd1-short"), (b"", "empty"),
                     (b"\x01", "body-missing"), (b"\x05\x4d\x02\x00\xaa", "pd2-short"), (b"\x00", "empty-script")):
        n += 1
        if ctx.mine(n):
            judge_parse_diff(ctx, {"buf": buf, "tag": "crafted-" + tag})
    for v in VARINTS + BAD_VARINTS:
        n += 1
        if ctx.mine(n):
            judge_varint(ctx, {"v": v})
    for _ in range(ctx.scale(400, 60000)):
        bits = rnd.choice([7, 8, 15, 16, 17, 31, 32, 33, 63, 64])
        judge_varint(ctx, {"v": rnd.getrandbits(bits)})
    for _ in range(ctx.scale(40, 4000)):
        judge_varint(ctx, {"v": rnd.choice([1, -1]) * rnd.randrange(1 << 64, 1 << 80) if rnd.random() < 0.7 else -rnd.randrange(1, 1 << 64)})
    # byte-count thresholds written down in the code under test, up to 64 MiB (vpkg.harvest): a script just beyond each
    from .. import harvest
    from ..core import REPO
    bigs = [k for k in harvest.sizes(REPO, lo=65537, hi=1 << 26) if ctx.thorough or k not in harvest.baseline() or k <= (1 << 21)]
    ctx.extra["harvested_byte_thresholds"] = bigs
    for bi, K in enumerate(bigs):
        if ctx.mine_once(bi + 4):
            for cut in (0, 1, 2, 7, 100, 519, 523, -1):
                judge_big_script(ctx, {"k": K, "cut": cut})
    # K+3 distinct requests per harvested threshold K, then a second look at the earliest answers (vpkg.longrun.ask_again)
    from .. import longrun
    longrun.histories(ctx, "history", "C19", history_specs(), first_job=2)
    ctx.extra["harvested_thresholds"] = longrun.thresholds()


def judge_big_script(ctx, case):
    """A script whose body is a little longer than a byte-count threshold K written down in the code under test (a block size, a
    read limit): the canonical serialisation parses back, and the same bytes cut short inside the last element - by 1, 2, 7, 100,
    519 bytes, by the whole element, in the middle - are refused.  The buffer is rebuilt from (K, cut): witnesses stay small."""
    K, cut = case["k"], case["cut"]
    count = (K + 3000) // 523 + 1
    cmds = [bytes([j & 0xFF]) * 520 for j in range(count)]
    ser = rscr.serialize(cmds)
    buf = ser if cut == 0 else (ser[:len(ser) // 2] if cut < 0 else ser[:-cut])
    try:
        got = mk([]).parse(BytesIO(buf)).cmds
        err = None
    except Exception as e:  # noqa
        got, err = None, e
    if cut == 0:
        ok, obs = err is None and got == cmds, err if err is not None else "%d commands, last %d bytes" % (len(got), len(got[-1]) if got else -1)
        return ctx.judge("parse_diff", ok, case, "%d elements of 520 bytes" % count, obs, cls="big|K%d|canonical" % K, mech="C19.parse.rejects_canonical" if err else "C19.parse.wrong_commands")
    ok = err is not None
    obs = err if err is not None else "%d commands, last %d bytes" % (len(got), len(got[-1]) if got and isinstance(got[-1], bytes) else -1)
    return ctx.judge("parse_diff", ok, case, "fail (input ends early)", obs, cls="big|K%d|cut" % K, outcome="both-fail" if ok else "lib-accepts",
                     mech="C19.parse.truncated_accepted")


def history_specs():
    import btc_hd_wallet.helper as h
    import hashlib as _hl

    def cmds(j):
        d = _hl.sha256(b"vp-c19-%d" % j).digest()
        return [0x76, 0xA9, d[:20], 0x88, 0xAC] if j % 3 == 0 else ([0x00, d] if j % 3 == 1 else [d[:1 + j % 31], 0x51 + j % 16, d[:j % 7 + 1]])
    return [
        ("Script.parse", lambda buf: mk([]).parse(BytesIO(buf)).cmds, lambda j: (rscr.serialize(cmds(j)), cmds(j))),
        ("Script.serialize", lambda c: mk(list(c)).serialize(), lambda j: (cmds(j), rscr.serialize(cmds(j)))),
        ("encode_varint", h.encode_varint, lambda j: (j * 2654435761 % (1 << (8, 16, 32, 40)[j % 4]), rscr.enc_varint(j * 2654435761 % (1 << (8, 16, 32, 40)[j % 4])))),
    ]


def replay(ctx, monitor, case):
    if monitor == "history":
        from .. import longrun
        for name, fn, make in history_specs():
            if name == case["function"]:
                longrun.ask_again(ctx, "history", "C19", name, fn, make, case["n"], case["k"])
        return
    if monitor == "parse_diff" and "cut" in case:
        return judge_big_script(ctx, case)
    if monitor == "script_history":
        case["ops"] = [tuple(o) for o in case["ops"]]
        return judge_script_history(ctx, case)
    {"push_len": judge_push_len, "opcode": judge_opcode, "script_roundtrip": judge_script_roundtrip, "parse_diff": judge_parse_diff,
     "varint": judge_varint}[monitor](ctx, case)
