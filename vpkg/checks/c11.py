"""C11 - segwit addresses follow BIP173/BIP350 and detect up to four character errors."""
from .. import gen
from ..hostile import scribble
from ..ref import bech32 as rbech

PROP = "C11"
LEVEL = "exploration"
SHARDS = {"quick": 8, "thorough": 16}
TIMEOUT = {"quick": 1200, "thorough": 7200}
THOROUGH_MULT = 3   # thorough budgets below are multiplied by this (sized for roughly five minutes on 16 cores)
REQUIRED = {"A.encode": 1500, "A.decode_back": 500, "B.reject_constructed": 300, "C.syndromes": 2201,
            "C.linearity": 200, "C.weight_le4": 4, "D.substitution": 10000, "D.differential": 3000}
ANCHORS = ['bech32:encode', 'bech32:decode', 'bech32:bech32_polymod', 'bech32:convertbits', 'bech32:bech32_decode', 'helper:bech32_decode_address']
RULE = ("A: ALL (version, length) pairs in 0..17 x 0..42 (774, exhaustive) x HRPs {bc, tb, bcrt, random 1..83 chars} with "
        "random programs; B: strings built by the reference encoder that are wrong in exactly one way but carry a valid "
        "checksum; C: the repo's real bech32_polymod evaluated on ALL 2201 single-symbol errors of the longest emit-able data "
        "part (71 symbols), affine-linearity and HRP/length invariance observed on samples, then ALL error patterns of weight "
        "<= 4 decided offline by set intersections (2 388 085 weight-2 syndromes); D: random <=4-symbol substitutions and an "
        "insert/delete/case/charset grammar through the real decoder, differential against the reference decoder; distinct = "
        "distinct (monitor, case) digests"
        " EXTENSIONS: + foreign printable characters at every position (B3), characters outside 33..126 affixed / after the separator / before the checksum (B4), prefixes related to the expected one, caller edits of returned lists, full (version x length x constant) grid, foreign character x compensating neighbour grid (B5), addresses without a cased character (letter-free prefix, digit-only symbols), request histories, prefixes handed over as fresh (non-literal) strings")
LEVEL_TEXT = ("Codec agreement is exhaustive over (version, length); rejection clauses are exercised by construction; the "
              "error-detection clause is decided for EVERY error pattern of weight <= 4 (both constants and the cross-constant "
              "case) from syndromes computed by the real bech32_polymod, exhaustive given the checksum's affine-linearity, which "
              "is observed on samples and follows from the XOR/shift-only structure; sampled substitutions confirm it end to end "
              "on the real decoder, where an acceptance must be the version-0<->non-zero exemption.")
LEVEL_NOTE = ("Trusted: reference GF(32) implementation (self-tested on BIP173/350 vectors and against the BIP's generator "
              "constants), numpy set operations. Linearity of the real function is sampled, not proved.")
TECHNIQUE = "runtime differential oracle + exhaustive offline syndrome checker over events recorded from the real bech32_polymod"
ASSUMPTIONS = ["bech32_polymod is affine-linear over GF(2) (observed on samples every run)"]
DELTA = rbech.BECH32_CONST ^ rbech.BECH32M_CONST
MAXDATA = 71   # 1 version symbol + 64 symbols (40-byte program) + 6 checksum symbols


def rand_hrp(rnd):
    r = rnd.random()
    if r < 0.35:
        return "bc"
    if r < 0.6:
        return "tb"
    if r < 0.7:
        return "bcrt"
    ln = rnd.choice([1, 2, 3, 10, 40, 83, rnd.randrange(1, 84)])
    chars = [chr(c) for c in range(33, 127) if not ("A" <= chr(c) <= "Z")]
    return "".join(rnd.choice(chars) for _ in range(ln))


# ------------------------------------------------------------------ A
def judge_A(ctx, case):
    import btc_hd_wallet.bech32 as b
    hrp, v, prog = case["hrp"], case["witver"], case["prog"]
    if case.get("aslist"):
        from ..core import fresh_str
        hrp = fresh_str(hrp)            # (equal to, not identical with, the literal 'bc' / 'tb' the library may hold)
    want = rbech.segwit_encode(hrp, v, prog)
    try:
        got, err = b.encode(hrp, v, list(prog) if case.get("aslist") else prog), None
    except Exception as e:  # noqa
        got, err = None, e
    legal = want is not None
    cls = "A|v%s|len%s|%s" % ("0" if v == 0 else ("1-16" if v <= 16 else "17"), "ok" if rbech.legal_program(v, len(prog)) else "bad",
                              hrp if hrp in ("bc", "tb", "bcrt") else "hrp%d" % min(len(hrp), 84))
    if not legal:
        return ctx.judge("A.encode", got is None, case, None, got if err is None else err, cls=cls, outcome="none" if got is None else "string",
                         mech="C11.A.illegal_yields_address")
    ok = got == want
    ctx.judge("A.encode", ok, case, want, got if err is None else err, cls=cls, mech="C11.A.encode_mismatch")
    if ok:
        if case.get("hostile"):
            # the caller edits what it was handed (the 5-bit data list, the program list, a convertbits result) in place
            import random as _random
            hr = _random.Random(case["hostile"])
            try:
                scribble(b.bech32_decode(got)[1], hr)
                scribble(b.decode(hrp, got)[1], hr)
                scribble(b.convertbits(list(prog), 8, 5), hr)
                scribble(b.bech32_decode(got.upper())[1], hr)
            except Exception:  # noqa
                pass
            again = b.encode(hrp, v, prog)
            ctx.judge("A.encode", again == want, dict(case, step="re-encode after the caller edited returned lists"), want, again,
                      cls=cls + "|hostile", mech="C11.A.encode_after_scribble")
        back = b.decode(hrp, got)
        okb = back[0] == v and back[1] is not None and bytes(back[1]) == prog
        # checksum constant actually used
        d = rbech.bech_decode(got)
        const_ok = d is not None and d[2] == (rbech.BECH32_CONST if v == 0 else rbech.BECH32M_CONST)
        ctx.judge("A.decode_back", okb and const_ok, case, (v, prog), (back[0], bytes(back[1]) if back[1] is not None else None),
                  cls=cls, mech="C11.A.decode_back" if not okb else "C11.A.wrong_constant")
        # upper-case form decodes identically
        up = b.decode(hrp, got.upper())
        if not any(c.isalpha() for c in hrp) or hrp.islower():
            okc = up[0] == v and up[1] is not None and bytes(up[1]) == prog
            ctx.judge("A.decode_back", okc, {"upper": got.upper(), "hrp": hrp}, (v, prog), up[0], cls="A|upper", mech="C11.A.uppercase_rejected")


# ------------------------------------------------------------------ B
def build_wrong(rnd, kind):
    """Returns (hrp_expected, string) wrong in exactly `kind` but with a valid checksum."""
    hrp = rnd.choice(["bc", "tb"])
    v = rnd.choice([0, 1, 1, 2, 16])
    plen = rnd.choice([20, 32]) if v == 0 else rnd.randrange(2, 41)
    prog = gen.rbytes(rnd, plen)
    const = rbech.BECH32_CONST if v == 0 else rbech.BECH32M_CONST
    data = [v] + rbech.to5(prog)
    if kind == "mixed-case":
        s = rbech.bech_encode(hrp, data, const)
        idx = [i for i, c in enumerate(s) if c.isalpha()]
        i = rnd.choice(idx)
        s = s[:i] + s[i].upper() + s[i + 1:]
        if s.lower() == s or s.upper() == s:
            return None
        return hrp, s
    if kind == "other-hrp":
        other = "tb" if hrp == "bc" else "bc"
        return hrp, rbech.bech_encode(other, data, const)
    if kind == "related-hrp":
        # a prefix RELATED to the expected one: it extends it across a '1' (bc -> bc1q, so the string still starts with
        # "bc1"), is a prefix / suffix of it, differs in its last character, or is its upper-case form with lower data
        rel = rnd.choice([hrp + "1" + x for x in ("", "q", "p", "zz", "qq1", "1")] + [hrp[:1], hrp + "c", hrp + "r", hrp[:-1] + "d", "x" + hrp, hrp + hrp])
        return hrp, rbech.bech_encode(rel, data, const)
    if kind == "wrong-const":
        return hrp, rbech.bech_encode(hrp, data, rbech.BECH32M_CONST if v == 0 else rbech.BECH32_CONST)
    if kind == "nonzero-padding":
        # choose a program length whose 5-bit regrouping leaves padding bits, set one of them
        plen = rnd.choice([20, 32]) if v == 0 else rnd.choice([l for l in range(2, 41) if (l * 8) % 5])
        prog = gen.rbytes(rnd, plen)
        d5 = rbech.to5(prog)
        pad = 5 - (plen * 8) % 5
        d5[-1] |= 1 << rnd.randrange(0, pad)
        return hrp, rbech.bech_encode(hrp, [v] + d5, const)
    if kind == "long-padding":
        # one extra all-zero symbol => 5 or more padding bits (program bytes unchanged)
        d5 = rbech.to5(prog)
        if (len(d5) + 1) * 5 - plen * 8 < 5:
            return None
        return hrp, rbech.bech_encode(hrp, [v] + d5 + [0], const)
    if kind == "v0-bad-length":
        plen = rnd.choice([l for l in range(2, 41) if l not in (20, 32)])
        return hrp, rbech.bech_encode(hrp, [0] + rbech.to5(gen.rbytes(rnd, plen)), rbech.BECH32_CONST)
    if kind == "too-short":
        plen = rnd.choice([0, 1])
        return hrp, rbech.bech_encode(hrp, [1] + rbech.to5(gen.rbytes(rnd, plen)), rbech.BECH32M_CONST)
    if kind == "too-long-program":
        plen = rnd.choice([41, 42, 45])
        return hrp, rbech.bech_encode(hrp, [1] + rbech.to5(gen.rbytes(rnd, plen)), rbech.BECH32M_CONST)
    if kind == "version>16":
        vv = rnd.randrange(17, 32)
        return hrp, rbech.bech_encode(hrp, [vv] + rbech.to5(gen.rbytes(rnd, 20)), rbech.BECH32M_CONST)
    if kind == ">90-chars":
        hrp2 = "bc" + "x" * rnd.randrange(20, 60)
        s = rbech.bech_encode(hrp2, [1] + rbech.to5(gen.rbytes(rnd, 40)), rbech.BECH32M_CONST)
        if len(s) <= 90:
            return None
        return hrp2, s
    if kind == "empty-data":
        return hrp, rbech.bech_encode(hrp, [], rbech.BECH32M_CONST)
    if kind == "no-separator-hrp":
        return hrp, rbech.bech_encode("", data, const)
    raise ValueError(kind)


B_KINDS = ["mixed-case", "other-hrp", "related-hrp", "related-hrp", "wrong-const", "nonzero-padding", "long-padding", "v0-bad-length", "too-short",
           "too-long-program", "version>16", ">90-chars", "empty-data", "no-separator-hrp"]


def judge_B(ctx, case):
    import btc_hd_wallet.bech32 as b
    hrp, s = case["hrp"], case["s"]
    if rbech.segwit_decode(hrp, s) is not None:
        return None  # construction accidentally valid: not a rejection case
    for _attempt in range(2):            # a refusal has to be stable: asked again straight away it is refused again
        try:
            got = b.decode(hrp, s)
            ok = got == (None, None)
        except Exception as e:  # noqa  (raising is a refusal as well)
            got, ok = e, True
        if not ok:
            break
    return ctx.judge("B.reject_constructed", ok, case, (None, None), got if not isinstance(got, tuple) else (got[0], got[1]),
                     cls="B|" + case["kind"], outcome="rejected" if ok else "accepted", mech="C11.B.accepted." + case["kind"])


# ------------------------------------------------------------------ C
def oracle_C(ctx):
    import numpy as np
    import btc_hd_wallet.bech32 as b
    rnd = ctx.rnd
    pm = b.bech32_polymod
    L = MAXDATA
    base_hrp = rbech.hrp_expand("bc")
    zero = base_hrp + [0] * L
    p0 = pm(zero)
    # (1) affine linearity on random pairs, various lengths
    for _ in range(300 if not ctx.thorough else 5000):
        n = rnd.randrange(1, 95)
        u = [rnd.randrange(32) for _ in range(n)]
        v = [rnd.randrange(32) for _ in range(n)]
        w = [x ^ y for x, y in zip(u, v)]
        ok = pm(u) ^ pm(v) ^ pm(w) == pm([0] * n)
        ctx.judge("C.linearity", ok, {"u": u, "v": v} if not ok else {"n": n, "h": hash(tuple(u)) & 0xFFFFFF}, "affine", None,
                  cls="lin|n%d" % (n // 16), mech="C11.C.not_affine")
    # (2) all single-symbol syndromes from the REAL function, compared with GF(32) reference
    S = np.zeros((L, 31), dtype=np.uint32)
    for j in range(L):            # j = distance from the end
        for a in range(1, 32):
            e = list(zero)
            e[len(e) - 1 - j] = a
            s_real = pm(e) ^ p0
            s_ref = rbech.polymod(e) ^ rbech.polymod(zero)
            S[j, a - 1] = s_real
            ctx.judge("C.syndromes", s_real == s_ref, {"pos_from_end": j, "value": a}, s_ref, s_real,
                      cls="syn|j%d" % (j // 8), mech="C11.C.syndrome_mismatch")
    # (3) invariance under HRP and length (so one table covers every address length)
    for _ in range(200 if not ctx.thorough else 3000):
        hrp = rand_hrp(rnd)
        n = rnd.randrange(8, L + 1)
        basev = rbech.hrp_expand(hrp) + [rnd.randrange(32) for _ in range(n)]
        j = rnd.randrange(0, n)
        a = rnd.randrange(1, 32)
        e = list(basev)
        e[len(e) - 1 - j] ^= a
        ok = (pm(e) ^ pm(basev)) == int(S[j, a - 1])
        ctx.judge("C.linearity", ok, {"hrp": hrp, "n": n, "j": j, "a": a}, int(S[j, a - 1]), pm(e) ^ pm(basev), cls="invariance",
                  mech="C11.C.syndrome_not_invariant")
    # (4) offline checker over all patterns of weight <= 4
    W1 = S.reshape(-1)
    nz1 = bool((W1 != 0).all())
    distinct1 = len(np.unique(W1)) == len(W1)
    pairs = []
    chunks = []
    for i in range(L):
        for j in range(i + 1, L):
            chunks.append((S[i][:, None] ^ S[j][None, :]).reshape(-1))
            pairs.append((i, j))
    W2 = np.concatenate(chunks)
    ctx.extra["C_weight2_syndromes"] = int(W2.size)
    u2 = np.unique(W2)
    zero2 = bool((W2 == 0).any())
    w3_zero = int(np.intersect1d(u2, W1).size)            # s_i ^ s_j == s_k  -> weight <= 3 undetected
    w4_zero = int(W2.size - u2.size)                      # duplicate weight-2 syndromes -> weight <= 4 undetected
    ctx.judge("C.weight_le4", nz1, {"weight": 1}, "no zero syndrome", "zero syndrome among single errors", cls="w1", mech="C11.C.undetected_weight1")
    ctx.judge("C.weight_le4", distinct1 and not zero2, {"weight": 2}, "no zero syndrome", {"distinct1": distinct1, "zero_in_W2": zero2},
              cls="w2", mech="C11.C.undetected_weight2")
    ctx.judge("C.weight_le4", w3_zero == 0, {"weight": 3}, 0, w3_zero, cls="w3", mech="C11.C.undetected_weight3")
    ctx.judge("C.weight_le4", w4_zero == 0, {"weight": 4}, 0, w4_zero, cls="w4", mech="C11.C.undetected_weight4")
    # cross-constant: patterns whose syndrome is DELTA
    d1 = int((W1 == DELTA).sum())
    d2 = int((W2 == DELTA).sum())
    d3 = int(np.intersect1d(u2 ^ np.uint32(DELTA), W1).size)
    ctx.judge("C.weight_le4", d1 == 0 and d2 == 0 and d3 == 0, {"cross_constant_weight": "<=3"}, 0, {"w1": d1, "w2": d2, "w3": d3},
              cls="delta<=3", mech="C11.C.cross_constant_weight_le3")
    hits = np.intersect1d(u2, u2 ^ np.uint32(DELTA))
    ctx.extra["C_delta_weight4_syndrome_pairs"] = int(hits.size)
    # recover concrete weight-4 DELTA patterns for end-to-end replay; prefer those that touch a position
    # where a real address has its version symbol (data part of 39 / 59 symbols: v0 P2WPKH / P2WSH, v1 P2TR)
    patterns, touching = [], []
    if hits.size:
        order = np.argsort(W2, kind="stable")
        sortedW2 = W2[order]
        cap = 40 if not ctx.thorough else 400
        for s in hits:
            ia = order[np.searchsorted(sortedW2, s)]
            ib = order[np.searchsorted(sortedW2, s ^ np.uint32(DELTA))]
            pat = []
            for idx in (int(ia), int(ib)):
                pi, rem = divmod(idx, 961)
                i, j = pairs[pi]
                a, bb = divmod(rem, 31)
                pat += [(i, a + 1), (j, bb + 1)]
            if len({p for p, _ in pat}) != 4:
                continue
            if any(p in (38, 58) for p, _ in pat):
                if len(touching) < cap:
                    touching.append(pat)
            elif len(patterns) < cap:
                patterns.append(pat)
            if len(touching) >= cap and len(patterns) >= cap:
                break
    ctx.extra["C_delta_patterns_touching_version_pos"] = len(touching)
    return touching + patterns


def judge_delta_replay(ctx, pat):
    """Replay a weight-4 cross-constant pattern on real addresses of every
    length where it can (or cannot) touch the version symbol."""
    import btc_hd_wallet.bech32 as b
    rnd = ctx.rnd
    positions = {p: a for p, a in pat}
    pmax = max(positions)
    for v, plen in ((0, 20), (0, 32), (1, 32), (1, 20), (16, 40), (2, 2), (5, 11), (1, 38)):
        data_len = 1 + len(rbech.to5(b"\x00" * plen)) + 6
        if pmax >= data_len:
            continue
        ver_pos = data_len - 1
        vv = v
        if ver_pos in positions and v != 0:
            vv = positions[ver_pos] if 1 <= positions[ver_pos] <= 16 else v   # so that v ^ a == 0 (switch to v0)
        prog = gen.rbytes(rnd, plen)
        s = rbech.segwit_encode("bc", vv, prog)
        if s is None:
            continue
        chars = list(s)
        for p, a in positions.items():
            i = len(chars) - 1 - p
            chars[i] = rbech.CHARSET[rbech._CHIDX[chars[i]] ^ a]
        t = "".join(chars)
        got = b.decode("bc", t)
        ref = rbech.segwit_decode("bc", t)
        accepted = got != (None, None)
        switched = ver_pos in positions and ((vv == 0) != ((vv ^ positions[ver_pos]) == 0))
        agree = (ref is None and not accepted) or (ref is not None and accepted and got[0] == ref[0] and bytes(got[1]) == ref[1])
        ok = agree and (not accepted or switched)
        ctx.judge("D.delta_replay", ok, {"orig": s, "mutated": t, "pattern": pat}, "rejected unless v0<->non-zero switch",
                  {"accepted": accepted, "switched": switched, "ref": ref is not None},
                  cls="delta|%s|%s" % ("touches-version" if ver_pos in positions else "data-only", "accepted" if accepted else "rejected"),
                  outcome="accepted-exempt" if accepted else "rejected", mech="C11.D.cross_constant_accepted_nonexempt")


# ------------------------------------------------------------------ D
def judge_D_subst(ctx, case):
    import btc_hd_wallet.bech32 as b
    s, hrp = case["addr"], case["hrp"]
    edits = case["edits"]     # list of (index, new char) on distinct indexes, each differing from the original
    chars = list(s)
    for i, c in edits:
        chars[i] = c
    t = "".join(chars)
    try:
        got = b.decode(hrp, t)
    except Exception as e:  # noqa
        got = (None, None)
    accepted = got != (None, None)
    w = len(edits)
    sep = s.rfind("1")
    ver_i = sep + 1
    v0 = rbech._CHIDX[s[ver_i].lower()]
    exempt = False
    if accepted and w == 4:
        ed = dict(edits)
        if ver_i in ed and ed[ver_i].lower() in rbech._CHIDX:
            v1 = rbech._CHIDX[ed[ver_i].lower()]
            exempt = (v0 == 0) != (v1 == 0)
    ok = (not accepted) or exempt
    return ctx.judge("D.substitution", ok, case, "rejected", {"accepted_as": (got[0], bytes(got[1]) if got[1] else None)} if accepted else None,
                     cls="D|w%d|%s" % (w, case.get("etag", "")), outcome="accepted-exempt" if accepted else "rejected",
                     mech="C11.D.substitution_accepted_w%d" % w)


def judge_D_diff(ctx, case):
    """Any string: real decoder == reference decoder."""
    import btc_hd_wallet.bech32 as b
    import btc_hd_wallet.helper as h
    hrp, t = case["hrp"], case["s"]
    if len(t) & 1:
        from ..core import fresh_str
        hrp = fresh_str(hrp)
    ref = rbech.segwit_decode(hrp, t)
    try:
        got = b.decode(hrp, t)
    except Exception as e:  # noqa
        got = (None, None)
    if ref is None:
        ok = got == (None, None)
    else:
        ok = got[0] == ref[0] and got[1] is not None and bytes(got[1]) == ref[1]
    r = ctx.judge("D.differential", ok, case, ref, (got[0], bytes(got[1]) if got[1] is not None else None),
                  cls="diff|%s|%s" % (case.get("tag", ""), "valid" if ref else "invalid"), mech="C11.D.decoder_disagrees." + ("accepted" if ref is None else "rejected"))
    if ref is not None and len(t) >= 2 and t[:2].lower() == hrp:
        try:
            prog = h.bech32_decode_address(t if t[:2] == hrp else t)
            okp = prog == ref[1] if t[:2] == hrp else True
        except Exception:  # noqa
            okp = t[:2] != hrp
        ctx.judge("D.differential", okp, {"helper": "bech32_decode_address", "s": t}, ref[1], None, cls="diff|helper", mech="C11.D.helper_decode")
    if ref is None and hrp in ("bc", "tb") and case.get("tag", "").startswith("outside-33-126"):
        # the address helper on top of the decoder must not hand out a program for a string the decoder has to refuse
        try:
            prog = h.bech32_decode_address(t)
            okh = not isinstance(prog, (bytes, bytearray, list)) or len(prog) == 0
        except Exception:  # noqa
            prog, okh = None, True
        ctx.judge("D.differential", okh, {"helper": "bech32_decode_address", "s": t}, "refusal", prog, cls="diff|helper-invalid", mech="C11.D.helper_accepts_invalid")
    return r


def judge_foreign_pairs(ctx, case):
    import btc_hd_wallet.bech32 as b
    import btc_hd_wallet.helper as h
    hrp, form = case["hrp"], case["addr"]
    sep = form.rfind("1")
    foreign = [chr(c) for c in range(33, 127) if chr(c).lower() not in rbech.CHARSET]
    symbols = [c.upper() if case["upper"] else c for c in rbech.CHARSET]
    tried, accepted = 0, []
    for pos in range(sep + 1, len(form)):
        for c in foreign:
            for npos in (pos - 1, pos + 1):
                if npos <= sep or npos >= len(form):
                    continue
                for sym in symbols:
                    if sym == form[npos]:
                        continue
                    chars = list(form)
                    chars[pos], chars[npos] = c, sym
                    t = "".join(chars)
                    tried += 1
                    try:
                        got = b.decode(hrp, t)
                    except Exception:  # noqa
                        got = (None, None)
                    if got != (None, None):
                        accepted.append((t, got[0]))
                    elif tried % 997 == 0:
                        try:
                            prog = h.bech32_decode_address(t)
                            if isinstance(prog, (bytes, bytearray)) and len(prog):
                                accepted.append((t, "helper"))
                        except Exception:  # noqa
                            pass
                    if len(accepted) >= 3:
                        break
    ctx.extra["foreign_pair_strings_decoded"] = ctx.extra.get("foreign_pair_strings_decoded", 0) + tried
    return ctx.judge("D.differential", not accepted, case, "every string refused (a character outside the 32 symbols)", accepted[:3],
                     cls="diff|foreign-pair-grid|%s" % ("upper" if case["upper"] else "lower"), mech="C11.D.decoder_disagrees.accepted")


def uncased_cases(rnd, ctx, per_prefix=2, tries=12000):
    """(hrp, version, program) whose encoding holds no cased character at all (digits and punctuation only)."""
    digit_vals = [i for i, ch in enumerate(rbech.CHARSET) if ch.isdigit()]
    vers = [v for v in digit_vals if v <= 16]
    out = []
    prefixes = ["?", "1", "2", "21", "~!", "1234567", "+-", "0"]
    for pi, hrp in enumerate(prefixes):
        if not ctx.mine(pi):
            continue
        found = 0
        for _ in range(tries):
            v = rnd.choice(vers)
            groups = [rnd.choice(digit_vals) for _ in range(rnd.choice([8, 16, 32, 64]))]     # (5 bits x 8k: no padding)
            prog = bytes(rbech.from5(groups))
            s_ = rbech.segwit_encode(hrp, v, prog)
            if s_ is not None and not any(ch.isalpha() for ch in s_):
                out.append((hrp, v, prog))
                found += 1
                if found >= per_prefix:
                    break
    ctx.extra["uncased_addresses_found"] = ctx.extra.get("uncased_addresses_found", 0) + len(out)
    return out


def gen_valid(rnd):
    hrp = rnd.choice(["bc", "tb"])
    v = rnd.choice([0, 0, 0, 1, 1, 2, 16])
    plen = rnd.choice([20, 32]) if v == 0 else rnd.choice([32, 32, 2, 40, rnd.randrange(2, 41)])
    return hrp, v, rbech.segwit_encode(hrp, v, gen.rbytes(rnd, plen))


def gen_subst(rnd, s):
    sep = s.rfind("1")
    w = rnd.choice([1, 2, 3, 3, 4, 4, 4])
    r = rnd.random()
    data_idx = list(range(sep + 1, len(s)))
    if r < 0.45:
        # w errors always including the version symbol (the only way to reach the exemption)
        idx = [sep + 1] + rnd.sample(data_idx[1:], w - 1)
        etag = "with-version"
    elif r < 0.85:
        idx = rnd.sample(data_idx, w)
        etag = "data"
    else:
        idx = rnd.sample(range(len(s)), w)
        etag = "anywhere"
    edits = []
    for i in idx:
        pool = rbech.CHARSET if (i > sep and rnd.random() < 0.93) else "".join(chr(c) for c in range(33, 127))
        c = rnd.choice(pool)
        while c == s[i]:
            c = rnd.choice(pool)
        edits.append((i, c))
    return edits, etag


def mutate_any(rnd, s):
    op = rnd.choice(["insert", "delete", "case-one", "case-all", "swap", "append", "charset", "space", "dup-sep", "truncate", "nonascii"])
    i = rnd.randrange(len(s))
    if op == "insert":
        return op, s[:i] + rnd.choice(rbech.CHARSET) + s[i:]
    if op == "delete":
        return op, s[:i] + s[i + 1:]
    if op == "case-one":
        return op, s[:i] + s[i].upper() + s[i + 1:]
    if op == "case-all":
        return op, s.upper()
    if op == "swap":
        j = min(i + 1, len(s) - 1)
        return op, s[:i] + s[j] + s[i] + s[j + 1:] if j != i else s
    if op == "append":
        return op, s + rnd.choice(rbech.CHARSET)
    if op == "charset":
        return op, s[:i] + rnd.choice("bio1B") + s[i + 1:]
    if op == "space":
        return op, s[:i] + " " + s[i:]
    if op == "dup-sep":
        return op, s[:i] + "1" + s[i:]
    if op == "truncate":
        return op, s[:rnd.randrange(0, len(s))]
    return op, s[:i] + rnd.choice("é١") + s[i + 1:]


def run(ctx):
    rnd = ctx.rnd
    # ---- A: exhaustive (version, length)
    n = 0
    for v in range(0, 18):
        for ln in range(0, 43):
            for k in range(3):
                n += 1
                if ctx.mine(n):
                    hrp = ["bc", "tb", None][k] or rand_hrp(rnd)
                    judge_A(ctx, {"hrp": hrp, "witver": v, "prog": gen.rbytes(rnd, ln) if ln else b"", "aslist": bool(n & 1),
                                  "hostile": rnd.randrange(1, 1 << 30) if n % 3 == 0 else 0})
    for _ in range(ctx.scale(400, 80000)):
        v = rnd.randrange(0, 18)
        judge_A(ctx, {"hrp": rand_hrp(rnd), "witver": v, "prog": gen.rbytes(rnd, rnd.randrange(0, 43)), "aslist": rnd.random() < 0.5,
                      "hostile": rnd.randrange(1, 1 << 30) if rnd.random() < 0.3 else 0})
    # ---- A': strings without a single cased character - a letter-free prefix ('?', '1', '21', '~!' ...), a witness version
    #          whose symbol is a digit (5, 7, 10, 15) and a program whose groups AND checksum are all digit symbols (searched
    #          for: one candidate in about 2000) - and their all-letters counterparts; "not mixed case" must not become "has case"
    for ui, (uhrp, uv, uprog) in enumerate(uncased_cases(rnd, ctx)):
        judge_A(ctx, {"hrp": uhrp, "witver": uv, "prog": uprog, "aslist": bool(ui & 1), "hostile": 0, "tag": "uncased"})
        judge_D_diff(ctx, {"hrp": uhrp, "s": rbech.segwit_encode(uhrp, uv, uprog), "tag": "uncased"})
    # ---- B
    for j in range(ctx.scale(480, 60000)):
        kind = B_KINDS[j % len(B_KINDS)]
        built = build_wrong(rnd, kind)
        if built:
            judge_B(ctx, {"hrp": built[0], "s": built[1], "kind": kind})
    # ---- B2: full grid of (version symbol 0..31) x (program length 0..45) x (checksum constant) x (hrp bc/tb), each string built
    #          by the raw reference encoder with a VALID checksum for that constant: the decoder must agree with the
    #          reference on every cell (covers every double fault: odd v0 length with the Bech32m constant, v17 with either ...)
    for v in range(0, 32):
        for ln in range(0, 46):
            n += 1
            if not ctx.mine(n):
                continue
            prog = gen.rbytes(rnd, ln) if ln else b""
            for const in (rbech.BECH32_CONST, rbech.BECH32M_CONST):
                hrp = ("bc", "tb")[(v + ln) & 1]
                s_ = rbech.bech_encode(hrp, [v] + rbech.to5(prog), const)
                judge_D_diff(ctx, {"hrp": hrp, "s": s_ if rnd.random() < 0.8 else s_.upper(),
                                   "tag": "grid-v%s-len%s-%s" % ("0" if v == 0 else ("1-16" if v <= 16 else ">16"),
                                                                 "legal" if rbech.legal_program(v, ln) else "illegal",
                                                                 "b32" if const == 1 else "b32m")})
    # ---- B3: grid of non-charset printable ASCII characters at EVERY position after the separator (version, program and the
    #          six checksum symbols) of valid addresses, lower- and upper-case form: none may be accepted.  A decoder that maps a
    #          foreign character to some symbol (low five bits, find() == -1, ...) accepts the one that aliases the original.
    foreign = [chr(c) for c in range(33, 127) if chr(c).lower() not in rbech.CHARSET]
    for gi in range(6 if not ctx.thorough else 60):
        n += 1
        if not ctx.mine(n):
            continue
        hrp, v, s_ = gen_valid(rnd)
        form = s_.upper() if gi & 1 else s_
        sep = form.rfind("1")
        for pos in range(sep + 1, len(form)):
            for c in foreign:
                c2 = c.upper() if gi & 1 else c
                judge_D_diff(ctx, {"hrp": hrp, "s": form[:pos] + c2 + form[pos + 1:], "tag": "grid-foreign-%s" % ("checksum" if pos >= len(form) - 6 else "data")})
    # ---- B5: a foreign printable character at a position TOGETHER WITH any other symbol at the position before or after it
    #          (a character that carries more than five bits into the checksum arithmetic can be compensated by its neighbour):
    #          positions x 62 foreign characters x 2 neighbours x 31 symbols per address, none may be accepted
    for gi in range(4 if not ctx.thorough else 48):
        n += 1
        if not ctx.mine(n):
            continue
        hrp, v, s_ = gen_valid(rnd)
        if len(s_) > 74:
            hrp, v, s_ = "bc", 0, rbech.segwit_encode("bc", 0, gen.rbytes(rnd, 20))
        judge_foreign_pairs(ctx, {"hrp": hrp, "addr": s_.upper() if gi & 1 else s_, "upper": bool(gi & 1)})
    # ---- B4: characters outside 33..126 (blank, tab, NL, CR, CR+NL, VT, FF, NUL, DEL, the C0 separators, NEL, NBSP, LS/PS,
    #          BOM, ZWSP) appended, prepended, put after the separator and in front of the checksum of valid addresses (both
    #          cases): BIP173 allows none of them anywhere.  (`$` in a regular expression, str.strip(), int() and
    #          bytes.fromhex() all forgive some of these at the END of a string.)
    outside = [" ", "\t", "\n", "\r", "\r\n", "\x0b", "\x0c", "\x00", "\x7f", "\x1c", "\x1d", "\x1e", "\x1f", "\x85", "\xa0",
               "\u2028", "\u2029", "\ufeff", "\u200b", "\n\n", " \n"]
    for gi in range(8 if not ctx.thorough else 80):
        n += 1
        if not ctx.mine(n):
            continue
        hrp, v, s_ = gen_valid(rnd)
        form = s_.upper() if gi & 1 else s_
        if len(form) > 86:
            continue
        sep = form.rfind("1")
        for c in outside:
            for where, t in (("append", form + c), ("prepend", c + form), ("after-separator", form[:sep + 1] + c + form[sep + 1:]),
                             ("before-checksum", form[:-6] + c + form[-6:])):
                judge_D_diff(ctx, {"hrp": hrp, "s": t, "tag": "outside-33-126-%s" % where})
    # ---- C (shard 0 only: 6 s)
    patterns = []
    if ctx.shard == 0:
        patterns = oracle_C(ctx)
        ctx.extra["C_delta_patterns_replayed"] = len(patterns)
        for pat in patterns:
            judge_delta_replay(ctx, pat)
    # ---- D
    for _ in range(ctx.scale(20000, 5000000)):
        hrp, v, s = gen_valid(rnd)
        edits, etag = gen_subst(rnd, s)
        judge_D_subst(ctx, {"addr": s, "hrp": hrp, "edits": edits, "etag": etag})
    # Unicode confusables: characters that BECOME the right character under lower()/upper()/casefold()/NFKC
    # (KELVIN SIGN -> k, LONG S -> s, fullwidth/mathematical letters and digits), in lower- and upper-case addresses
    for _ in range(ctx.scale(2400, 300000)):
        hrp, v, s = gen_valid(rnd)
        form = s.upper() if rnd.random() < 0.5 else s
        sep = form.rfind("1")
        where = rnd.choice(["data", "data", "hrp", "any"])
        pos = range(sep + 1, len(form)) if where == "data" else (range(0, sep) if where == "hrp" else range(len(form)))
        t, nrep = gen.confuse(rnd, form, positions=list(pos))
        if nrep:
            judge_D_diff(ctx, {"hrp": hrp, "s": t, "tag": "confusable-%s-%s" % ("upper" if form != s else "lower", where)})
    for _ in range(ctx.scale(4000, 1000000)):
        hrp, v, s = gen_valid(rnd)
        if rnd.random() < 0.15:
            judge_D_diff(ctx, {"hrp": hrp, "s": s, "tag": "valid"})
            continue
        tag, t = mutate_any(rnd, s)
        judge_D_diff(ctx, {"hrp": hrp, "s": t, "tag": tag})
    # K+3 distinct requests per harvested threshold K, then a second look at the earliest answers (vpkg.longrun.ask_again)
    from .. import longrun
    longrun.histories(ctx, "history", "C11", history_specs(), first_job=2)
    ctx.extra["harvested_thresholds"] = longrun.thresholds()


def history_specs():
    import btc_hd_wallet.bech32 as b
    import btc_hd_wallet.helper as h
    import hashlib as _hl

    def prog(j):
        return _hl.sha256(b"vp-c11-%d" % j).digest()[:20 if j & 1 else 32]

    def addr(j):
        return rbech.segwit_encode("bc", 0 if j % 3 else 1, prog(j) if j % 3 else _hl.sha256(b"t%d" % j).digest())

    def dec(a):
        v, p = b.decode("bc", a)
        return (v, bytes(p) if p is not None else None)
    return [
        ("bech32.decode", dec, lambda j: (addr(j), (0 if j % 3 else 1, prog(j) if j % 3 else _hl.sha256(b"t%d" % j).digest()))),
        ("bech32.encode", lambda a: b.encode("bc", a[0], a[1]), lambda j: ((0, prog(j)), rbech.segwit_encode("bc", 0, prog(j)))),
        ("bech32_decode_address", lambda a: bytes(h.bech32_decode_address(a)), lambda j: (rbech.segwit_encode("bc", 0, prog(j)), prog(j))),
    ]


def replay(ctx, monitor, case):
    if monitor == "history":
        from .. import longrun
        for name, fn, make in history_specs():
            if name == case["function"]:
                longrun.ask_again(ctx, "history", "C11", name, fn, make, case["n"], case["k"])
        return
    if monitor.startswith("A."):
        judge_A(ctx, case)
    elif monitor.startswith("B."):
        judge_B(ctx, case)
    elif monitor.startswith("C."):
        oracle_C(ctx)
    elif monitor == "D.substitution":
        case["edits"] = [tuple(e) for e in case["edits"]]
        judge_D_subst(ctx, case)
    elif monitor == "D.delta_replay":
        judge_delta_replay(ctx, [tuple(p) for p in case["pattern"]])
    elif "addr" in case and "upper" in case:
        judge_foreign_pairs(ctx, case)
    else:
        judge_D_diff(ctx, case)
