"""C09 - key encodings (WIF, SEC) round-trip and out-of-range keys are rejected."""
from .. import gen, probes
from ..ref import secp, base58 as rb58, addr as raddr

import json

from ..core import refused

H = 1 << 31

PROP = "C09"
LEVEL = "exploration"
SHARDS = {"quick": 8, "thorough": 16}
TIMEOUT = {"quick": 900, "thorough": 7200}
THOROUGH_MULT = 4   # thorough budgets below are multiplied by this (sized for roughly five minutes on 16 cores)
REQUIRED = {"pubkey": 1500, "wif_roundtrip": 6000, "reject_scalar": 300, "reject_sec": 600}
ANCHORS = ['keys:PrivateKey.__init__', 'keys:PrivateKey.wif', 'keys:PrivateKey.from_wif', 'keys:PublicKey.parse', 'keys:PublicKey.sec']
RULE = ("scalars from boundary classes (1, 2, n-1, n-2, 2^k, 2^k-1, 1..31 leading zero bytes, near n, random) x 4 WIF flavours "
        "x both SEC forms x 3 constructors (bytes, int, from_int/parse); rejection corpora: 0, n, n+1, 2^256-1, 2^256, "
        "negatives, byte strings of every length 0..40 except 32, checksummed WIFs carrying such scalars or wrong payload "
        "lengths; SEC rejection: x with no square root, x >= p, wrong y, every prefix byte 0..255, every length 0..70, hybrid "
        "with inconsistent parity; distinct = distinct (monitor, case) digests"
        " EXTENSIONS: + from_point with hand-built off-curve / other-curve PointJacobi objects, secrets handed over in caller-owned buffers that are wiped afterwards, leading-zero X / Y corpora, every refusal repeated three times, extended private keys holding an out-of-range scalar: twelve first uses on fresh objects must each raise; use-time errors of accepted keys count, wrong-length twins of keys the process has already constructed, SEC forms of points with a coordinate in [n, p), encodings of one x in chosen orders with refused ones first (sec_order)")
LEVEL_TEXT = ("Every PrivateKey construction / wif / from_wif and PublicKey.parse / sec execution is compared with own "
              "secp256k1 arithmetic and an independent Base58Check codec; rejection is judged by outcome (must raise). "
              "Encodings that ecdsa additionally accepts (raw 64-byte, hybrid 06/07) are sound iff the returned point is the "
              "on-curve point the bytes denote. Held on K executions over boundary + random classes.")
LEVEL_NOTE = "Trusted: reference curve arithmetic (self-tested, cross-checked against OpenSSL CLI in setup), reference Base58Check."
TECHNIQUE = "runtime oracle (own EC arithmetic + Base58Check) on real key constructor/encoder calls; outcome-based rejection monitor"
ASSUMPTIONS = ["ecdsa fallback backend"]
N, P = secp.N, secp.P


def _mk_priv(k, how):
    from btc_hd_wallet.keys import PrivateKey
    if how == "bytes":
        return PrivateKey(k.to_bytes(32, "big"))
    if how == "int":
        return PrivateKey(k)
    if how == "from_int":
        return PrivateKey.from_int(k)
    if how in ("bytearray-wiped", "memoryview-wiped", "parse-bytearray-wiped"):
        # the secret arrives in a buffer the CALLER owns and wipes / re-uses right after the call (a careful caller does):
        # the key object must not follow the buffer.  A constructor that refuses such a buffer (TypeError) is fine.
        buf = bytearray(k.to_bytes(32, "big"))
        arg = memoryview(buf) if how == "memoryview-wiped" else buf
        pk = PrivateKey.parse(arg) if how.startswith("parse") else PrivateKey(arg)
        for i in range(32):
            buf[i] = 0xA5
        return pk
    return PrivateKey.parse(k.to_bytes(32, "big"))


def judge_pubkey(ctx, case):
    from btc_hd_wallet.keys import PublicKey
    k = case["k"]
    pt = secp.gmul(k)
    bad = []
    try:
        pk = _mk_priv(k, case["how"])
    except TypeError as e:
        if case["how"].endswith("-wiped"):
            return ctx.judge("pubkey", True, case, "key", e, cls="%s|%s|refused" % (case["ktag"], case["how"]), outcome="buffer-type-refused")
        return ctx.judge("pubkey", False, case, "key", e, cls="%s|%s" % (case["ktag"], case["how"]), outcome="raised", mech="C09.pubkey.raised")
    except Exception as e:  # noqa
        return ctx.judge("pubkey", False, case, "key", e, cls="%s|%s" % (case["ktag"], case["how"]), outcome="raised", mech="C09.pubkey.raised")
    try:
        return _judge_pubkey_uses(ctx, case, pk, k, pt, bad)
    except Exception as e:  # noqa  (a key object the constructor handed out must be usable: an error while using it counts)
        return ctx.judge("pubkey", False, case, "usable key object", e, cls="%s|%s" % (case["ktag"], case["how"]), outcome="use-raised",
                         mech="C09.pubkey.use_raised")


def _judge_pubkey_uses(ctx, case, pk, k, pt, bad):
    from btc_hd_wallet.keys import PublicKey
    if bytes(pk) != k.to_bytes(32, "big") or bytes(pk.k) != k.to_bytes(32, "big"):
        bad.append(("k_bytes", k.to_bytes(32, "big"), bytes(pk)))
    if case["how"].endswith("-wiped"):
        from ..ref import base58 as _rb58
        for comp in (True, False):
            w_ = pk.wif(compressed=comp, testnet=False)
            want_w = _rb58.encode_check(b"\x80" + k.to_bytes(32, "big") + (b"\x01" if comp else b""))
            if w_ != want_w:
                bad.append(("wif_after_caller_wiped_its_buffer|comp=%s" % comp, want_w, w_))
    for comp in (True, False):
        want = secp.ser(pt, comp)
        got = pk.K.sec(compressed=comp)
        if got != want:
            bad.append(("sec|comp=%s" % comp, want, got))
        try:
            back = PublicKey.parse(want)
            if back.sec(True) != secp.ser(pt, True) or back.sec(False) != secp.ser(pt, False) or not (back == pk.K):
                bad.append(("parse_roundtrip|comp=%s" % comp, want, back.sec(comp)))
        except Exception as e:  # noqa
            bad.append(("parse.raised|comp=%s" % comp, want, e))
    if pk.K.sec() != secp.ser(pt, True):
        bad.append(("sec_default_compressed", secp.ser(pt, True), pk.K.sec()))
    for comp in ((False, True, True, False) if k & 1 else (True, False, False, True)):
        if pk.K.sec(compressed=comp) != secp.ser(pt, comp):
            bad.append(("sec_repeat|comp=%s" % comp, secp.ser(pt, comp), pk.K.sec(compressed=comp)))
    return ctx.judge("pubkey", not bad, case, {"K": secp.ser(pt, True)}, bad, cls="%s|%s" % (case["ktag"], case["how"]),
                     mech="C09.pubkey." + (bad[0][0].split("|")[0] if bad else ""))


def judge_wif(ctx, case):
    from btc_hd_wallet.keys import PrivateKey
    k = case["k"]
    pk = _mk_priv(k, "bytes")
    for comp in (True, False):
        for tn in (False, True):
            bad = []
            want_payload = bytes([0xEF if tn else 0x80]) + k.to_bytes(32, "big") + (b"\x01" if comp else b"")
            want = rb58.encode_check(want_payload)
            try:
                s = pk.wif(compressed=comp, testnet=tn)
            except Exception as e:  # noqa
                ctx.judge("wif_roundtrip", False, case, want, e, cls="wif|raised", mech="C09.wif.raised")
                continue
            kind, payload = rb58.classify_check(s)
            if kind != "valid" or payload != want_payload:
                bad.append(("payload", want_payload, payload if kind == "valid" else kind))
            if s != want:
                bad.append(("string", want, s))
            try:
                back = PrivateKey.from_wif(want)
                if int.from_bytes(bytes(back), "big") != k or len(bytes(back)) != 32:
                    bad.append(("from_wif", k, bytes(back)))
                elif back.K.sec() != secp.ser(secp.gmul(k)):
                    bad.append(("from_wif_pub", secp.ser(secp.gmul(k)), back.K.sec()))
                else:
                    # the imported key object must encode to EVERY flavour correctly (not only the one it came from)
                    for c2 in (False, True):
                        for t2 in (True, False):
                            got2 = back.wif(compressed=c2, testnet=t2)
                            if got2 != raddr.wif(k, c2, t2):
                                bad.append(("reencode_after_from_wif(%s,%s)->(%s,%s)" % (comp, tn, c2, t2), raddr.wif(k, c2, t2), got2))
                    if back.wif() != raddr.wif(k, True, False):
                        bad.append(("reencode_after_from_wif.default", raddr.wif(k, True, False), back.wif()))
            except Exception as e:  # noqa
                bad.append(("from_wif.raised", k, e))
            ctx.judge("wif_roundtrip", not bad, {"k": k, "compressed": comp, "testnet": tn}, want, bad,
                      cls="wif|%s|%s|%s" % ("c" if comp else "u", "t" if tn else "m", case["ktag"]),
                      mech="C09.wif." + (bad[0][0].split("(")[0] if bad else ""))
    # the same key object asked repeatedly, in another order
    order = [(True, True), (False, False), (True, False), (False, True), (True, True)]
    for comp, tn in order:
        g = pk.wif(compressed=comp, testnet=tn)
        if g != raddr.wif(k, comp, tn):
            ctx.judge("wif_roundtrip", False, {"k": k, "compressed": comp, "testnet": tn, "repeat": True}, raddr.wif(k, comp, tn), g,
                      cls="wif|repeat", mech="C09.wif.repeat")
    # defaults: compressed mainnet
    d = pk.wif()
    ctx.judge("wif_roundtrip", d == raddr.wif(k, True, False), {"k": k, "default": True}, raddr.wif(k, True, False), d,
              cls="wif|default", mech="C09.wif.default")


def judge_reject_scalar(ctx, case):
    """Construction from an out-of-range / wrong-length secret must raise."""
    from btc_hd_wallet.keys import PrivateKey
    via = case["via"]
    def attempt():
        if via == "int":
            r = PrivateKey(case["value"])
        elif via == "from_int":
            r = PrivateKey.from_int(case["value"])
        elif via == "bytes":
            r = PrivateKey(case["raw"])
        elif via == "parse":
            r = PrivateKey.parse(case["raw"])
        else:  # correctly checksummed WIF carrying the bad secret
            r = PrivateKey.from_wif(rb58.encode_check(case["payload"]))
        return bytes(r)
    ok, obs, outcome = refused(attempt)          # (stable refusal: the same bad secret offered three times in a row)
    return ctx.judge("reject_scalar", ok, case, "raise", obs, cls="rejk|%s|%s" % (via, case["tag"]), outcome=outcome,
                     mech="C09.reject_scalar.accepted")


NODE_USES = ("ckd-hardened", "ckd-normal", "derive_path-hardened", "extended_private_key", "extended_public_key", "wallet.by_path",
             "wallet.generate", "wallet.bip84", "bip85.wif", "bip85.hex", "address", "wif")


def judge_reject_node(ctx, case):
    """An extended private key whose key field is 0 or >= n (the library parses lazily, which is its business): every FIRST USE of
    it that would construct a key, a child, an address or an encoding must raise - asked on a fresh object each time, so that no
    earlier touch has validated anything."""
    from btc_hd_wallet.bip32 import PrvKeyNode
    from btc_hd_wallet.paper_wallet import PaperWallet
    from btc_hd_wallet.bip85 import BIP85DeterministicEntropy
    k, tn, use = case["value"], case["testnet"], case["use"]
    ver = 0x04358394 if tn else 0x0488ADE4
    depth = case.get("depth", 0)
    payload = ver.to_bytes(4, "big") + bytes([depth]) + (b"\x00" * 4 if depth == 0 else b"\x12\x34\x56\x78") + \
        (0 if depth == 0 else 7).to_bytes(4, "big") + case["chain"] + b"\x00" + k.to_bytes(32, "big")
    x = rb58.encode_check(payload)

    def node():
        if case.get("form") == "ctor":
            return PrvKeyNode(key=k.to_bytes(32, "big"), chain_code=case["chain"], testnet=tn)
        return PrvKeyNode.parse(x, testnet=tn)

    def attempt():
        if use == "ckd-hardened":
            return node().ckd(index=H + case.get("index", 0)).extended_private_key()
        if use == "ckd-normal":
            return node().ckd(index=case.get("index", 0)).extended_private_key()
        if use == "derive_path-hardened":
            return node().derive_path(index_list=[H + 84, H, H]).private_key.wif(testnet=tn)
        if use == "extended_private_key":
            return node().extended_private_key()
        if use == "extended_public_key":
            return node().extended_public_key()
        if use == "wif":
            return node().private_key.wif(testnet=tn)
        w = PaperWallet.from_extended_key(extended_key=x)
        if use == "wallet.by_path":
            return w.by_path("m/84'/0'/0'/0/0").extended_private_key()
        if use == "wallet.generate":
            return json.dumps(w.generate(account=0, interval=(0, 1)))[:200]
        if use == "wallet.bip84":
            return str(w.bip84(account=0, interval=(0, 1)))[:200]
        if use == "address":
            return w.p2wpkh_address(w.master)
        b = BIP85DeterministicEntropy.from_xprv(xprv=x)
        return b.wif(index=0) if use == "bip85.wif" else b.hex(num_bytes=32, index=0)
    ok, obs, outcome = refused(attempt)
    return ctx.judge("reject_scalar", ok, case, "raise", obs, cls="rejnode|%s|%s" % (use, case["tag"]), outcome=outcome,
                     mech="C09.reject_scalar.node_use_accepted")


def judge_reject_twin(ctx, case):
    """A VALID key is constructed first (by value, bytes, WIF, or as the key of a parsed node that was used); then the same
    integer is offered in a spelling of the wrong length (00-padded to 33 / 34 / 40 bytes, leading zero bytes stripped): the
    wrong-length spelling must be refused whatever the process has seen before."""
    from btc_hd_wallet.keys import PrivateKey
    from btc_hd_wallet.bip32 import PrvKeyNode
    k = case["k"]
    k32 = k.to_bytes(32, "big")
    try:
        first = case["first"]
        if first == "int":
            PrivateKey(k).K.sec()
        elif first == "bytes":
            PrivateKey(k32).wif()
        elif first == "wif":
            PrivateKey.from_wif(rb58.encode_check(b"\x80" + k32 + b"\x01")).K.sec()
        else:
            node = PrvKeyNode(key=k32, chain_code=b"\x07" * 32)
            node.fingerprint()
            node.extended_private_key()
    except Exception as e:  # noqa
        return ctx.judge("reject_scalar", False, case, "valid key accepted", e, cls="twin|first-raised", mech="C09.reject_scalar.valid_refused")
    twins = {"33:00||k": b"\x00" + k32, "34:0000||k": b"\x00\x00" + k32, "40": b"\x00" * 8 + k32}
    stripped = k32.lstrip(b"\x00")
    if len(stripped) < 32:
        twins["stripped:%d" % len(stripped)] = stripped
    res = True
    for name, raw in sorted(twins.items()):
        for via in ("ctor", "parse"):
            ok, obs, outcome = refused(lambda: bytes(PrivateKey(raw) if via == "ctor" else PrivateKey.parse(raw)))
            res = ctx.judge("reject_scalar", ok, dict(case, twin=name, via=via), "raise", obs, cls="twin|%s|%s|after-%s" % (name.split(":")[0], via, case["first"]),
                            outcome=outcome, mech="C09.reject_scalar.wrong_length_twin_accepted") and res
    return res


def judge_sec_order(ctx, case):
    """Encodings of ONE x coordinate offered one after the other in a chosen order - valid compressed, valid uncompressed, the
    parity twin, and INVALID uncompressed forms (y altered, y = 0, x and y swapped) that must be refused: a refused request must
    not shape what a later legal request for the same x returns (and the other way round)."""
    from btc_hd_wallet.keys import PublicKey
    pt = secp.gmul(case["k"])
    x, y = pt
    P = secp.P
    xb = x.to_bytes(32, "big")
    forms = {"comp": (secp.ser(pt, True), pt), "uncomp": (secp.ser(pt, False), pt), "twin": (secp.ser((x, P - y), True), (x, P - y)),
             "bad-y+1": (b"\x04" + xb + ((y + 1) % P).to_bytes(32, "big"), None), "bad-y=0": (b"\x04" + xb + b"\x00" * 32, None),
             "bad-y-flip": (b"\x04" + xb + (y ^ 1).to_bytes(32, "big"), None)}
    bad = []
    for step, name in enumerate(case["order"]):
        raw, want = forms[name]
        try:
            K = PublicKey.parse(raw)
            got = (K.sec(True), K.sec(False))
            err = None
        except Exception as e:  # noqa
            got, err = None, e
        if want is None:
            if err is None:
                bad.append(("invalid_accepted@%d:%s" % (step, name), "raise", got[1][:8]))
        elif err is not None:
            bad.append(("valid_refused@%d:%s" % (step, name), "key", err))
        elif got != (secp.ser(want, True), secp.ser(want, False)):
            bad.append(("wrong_point@%d:%s" % (step, name), secp.ser(want, False)[:12], got[1][:12]))
        if bad:
            break
    return ctx.judge("reject_sec", not bad, case, None, bad[:2], cls="order|" + ">".join(case["order"][:3]),
                     mech="C09.sec_order." + (bad[0][0].split("@")[0] if bad else ""))


def judge_reject_sec(ctx, case):
    from btc_hd_wallet.keys import PublicKey
    raw = case["raw"]
    kind, pt = secp.classify_sec(raw)
    try:
        K = PublicKey.parse(raw)
        got = (K.sec(True), K.sec(False))
        err = None
    except Exception as e:  # noqa
        got, err = None, e
    if kind == "invalid":
        return ctx.judge("reject_sec", err is not None, case, "raise (%s)" % pt, got, cls="rejK|%s" % case["tag"],
                         outcome="raised" if err is not None else "returned", mech="C09.reject_sec.accepted")
    # bytes denote a curve point: accepting is fine iff it is that point; rejecting a lenient encoding is fine too
    if err is not None:
        strict = len(raw) in (33, 65) and raw[0] in (2, 3, 4)
        return ctx.judge("reject_sec", not strict, case, "accept (valid SEC)", err, cls="okK|%s" % case["tag"], outcome="raised",
                         mech="C09.parse.rejected_valid")
    ok = got == (secp.ser(pt, True), secp.ser(pt, False))
    return ctx.judge("reject_sec", ok, case, secp.ser(pt, True), got, cls="okK|%s" % case["tag"], outcome="accepted-point",
                     mech="C09.parse.wrong_point")


def judge_reject_point(ctx, case):
    """PublicKey.from_point is a place where a key can be constructed: point OBJECTS (ecdsa backend: affine Point, PointJacobi)
    that are not on secp256k1 must be refused, valid ones give the key of that point."""
    from btc_hd_wallet.keys import PublicKey
    try:
        import ecdsa
        from ecdsa.ellipticcurve import PointJacobi
    except ImportError:
        return None
    curve = ecdsa.SECP256k1.curve
    pt = secp.gmul(case["k"])
    x, y = pt
    P = secp.P
    kind = case["kind"]
    build = {
        "valid-jacobian": lambda: PointJacobi(curve, x, y, 1),
        "valid-jacobian-scaled": lambda: PointJacobi(curve, x * 4 % P, y * 8 % P, 2),
        "y+1": lambda: PointJacobi(curve, x, (y + 1) % P, 1),
        "x+1": lambda: PointJacobi(curve, (x + 1) % P, y, 1),
        "swapped": lambda: PointJacobi(curve, y, x, 1),
        "y=0": lambda: PointJacobi(curve, x, 0, 1),
        "broken-z": lambda: PointJacobi(curve, x, y, 3),
        "other-curve": lambda: ecdsa.NIST256p.generator,
    }[kind]
    try:
        obj = build()
    except Exception:  # noqa  (ecdsa itself refused to build the object)
        return None
    valid = kind.startswith("valid")
    if valid:
        try:
            got = PublicKey.from_point(obj).sec(True)
        except Exception as e:  # noqa
            got = e
        return ctx.judge("reject_point", got == secp.ser(pt, True), case, secp.ser(pt, True), got, cls="point|" + kind, mech="C09.from_point.wrong_key")
    ok, obs, outcome = refused(lambda: PublicKey.from_point(obj).sec(True))
    return ctx.judge("reject_point", ok, case, "raise (not a point of secp256k1)", obs, cls="point|" + kind, outcome=outcome.split("@")[0],
                     mech="C09.from_point.accepted_off_curve")


def install_probes(ctx):
    import btc_hd_wallet.keys as keys
    inst = probes.Installed()

    def on_wif(name, a, kw, res, exc):
        self = a[0]
        if exc is not None:
            return
        comp = kw.get("compressed", a[1] if len(a) > 1 else True)
        tn = kw.get("testnet", a[2] if len(a) > 2 else False)
        k = int.from_bytes(bytes(self), "big")
        want = raddr.wif(k, bool(comp), bool(tn))
        ctx.judge("probe.PrivateKey.wif", res == want, {"k": k, "compressed": bool(comp), "testnet": bool(tn)}, want, res,
                  cls="probe", mech="C09.probe.wif")

    def on_init(name, a, kw, res, exc):
        if exc is not None:
            return
        self = a[0]
        k = int.from_bytes(self.k, "big")
        try:
            got = self.K.sec()
        except Exception as e:  # noqa  (a constructor that returned must have produced a usable key)
            got = e
        ok = secp.valid_scalar(k) and len(self.k) == 32 and got == secp.ser(secp.gmul(k))
        ctx.judge("probe.PrivateKey.__init__", ok, {"k": k, "secret_length": len(self.k)}, "32-byte k in [1,n-1] and K = k*G", got, cls="probe",
                  mech="C09.probe.init")

    probes.try_install(ctx, "observe PrivateKey.wif", probes.observe_method, inst, keys.PrivateKey, "wif", on_wif)
    probes.try_install(ctx, "observe PrivateKey.__init__", probes.observe_method, inst, keys.PrivateKey, "__init__", on_init)
    return inst


def run(ctx):
    rnd = ctx.rnd
    inst = install_probes(ctx)
    try:
        n = 0
        lz_xy = [("K:x-leading-zero", k) for k in gen.leading_zero_x_scalars()] + [("K:y-leading-zero", k) for k in gen.leading_zero_y_scalars()]
        for ktag, k in gen.scalar_corners() + [("k:lz%d" % z, (1 << (8 * (32 - z))) - 1) for z in range(1, 32)] + lz_xy:
            for how in ("bytes", "int", "from_int", "parse"):
                n += 1
                if ctx.mine(n):
                    judge_pubkey(ctx, {"k": k, "ktag": ktag, "how": how})
            n += 1
            if ctx.mine(n):
                judge_wif(ctx, {"k": k, "ktag": ktag})
        for _ in range(ctx.scale(1600, 160000)):
            ktag, k = gen.scalar(rnd)
            judge_pubkey(ctx, {"k": k, "ktag": ktag.split(":lz")[0] + (":lz" if ":lz" in ktag else ""),
                               "how": rnd.choice(["bytes", "int", "from_int", "parse", "bytearray-wiped", "memoryview-wiped", "parse-bytearray-wiped"])})
        for _ in range(ctx.scale(1400, 120000)):
            ktag, k = gen.scalar(rnd)
            judge_wif(ctx, {"k": k, "ktag": ktag.split(":lz")[0] + (":lz" if ":lz" in ktag else "")})
        # ---- scalar rejection
        bad_ints = [("zero", 0), ("n", N), ("n+1", N + 1), ("2^256-1", (1 << 256) - 1), ("2^256", 1 << 256), ("neg1", -1), ("neg-n", -N),
                    ("n+rand", N + rnd.randrange(0, (1 << 256) - N))]
        for tag, v in bad_ints:
            for via in ("int", "from_int"):
                n += 1
                if ctx.mine(n):
                    judge_reject_scalar(ctx, {"via": via, "value": v, "tag": tag})
            if 0 <= v < 1 << 256:
                raw = v.to_bytes(32, "big")
                for via in ("bytes", "parse"):
                    n += 1
                    if ctx.mine(n):
                        judge_reject_scalar(ctx, {"via": via, "raw": raw, "tag": tag})
                for pre in (0x80, 0xEF):
                    for suf in (b"\x01", b""):
                        n += 1
                        if ctx.mine(n):
                            judge_reject_scalar(ctx, {"via": "wif", "payload": bytes([pre]) + raw + suf, "tag": "wif-" + tag})
        for ln in range(0, 41):
            if ln == 32:
                continue
            for via in ("bytes", "parse"):
                n += 1
                if ctx.mine(n):
                    judge_reject_scalar(ctx, {"via": via, "raw": gen.rbytes(rnd, ln) if ln else b"", "tag": "len"})
            # WIF whose secret part has the wrong length (compressed marker or not)
            # (80 || 31 bytes || 01 is a well-formed *uncompressed* WIF of a 32-byte secret, so ln=31 is excluded;
            #  80 || 33 bytes is well-formed compressed iff its last byte is 01, so that byte is forced to 02)
            n += 1
            if ctx.mine(n) and ln != 31:
                judge_reject_scalar(ctx, {"via": "wif", "payload": b"\x80" + (gen.rbytes(rnd, ln) if ln else b"") + b"\x01", "tag": "wif-len"})
            n += 1
            if ctx.mine(n):
                body = gen.rbytes(rnd, ln) if ln else b""
                if ln == 33:
                    body = body[:-1] + b"\x02"
                judge_reject_scalar(ctx, {"via": "wif", "payload": b"\xef" + body, "tag": "wif-len-nosuffix"})
        # wrong-length twins of keys this process has already constructed
        twin_ks = [1, 2, 255, 256, (1 << 248) - 1, (1 << 128) + 5] + [kk for _t, kk in lz_xy[:4]] + [rnd.randrange(1, N) for _ in range(4)] + [rnd.randrange(1, 1 << 200) for _ in range(3)]
        for ti, tk in enumerate(twin_ks):
            n += 1
            if ctx.mine(n):
                judge_reject_twin(ctx, {"k": tk, "first": ("int", "bytes", "wif", "node")[ti % 4]})
        # the same out-of-range scalars inside an extended private key, each first use on a fresh object
        for tag, v in (("0", 0), ("n", N), ("n+1", N + 1), ("2^256-1", (1 << 256) - 1), ("n+2^128", N + (1 << 128))):
            for use in NODE_USES:
                for form in ("parse", "ctor"):
                    n += 1
                    if ctx.mine(n) and not (form == "ctor" and use.startswith(("wallet", "bip85", "address"))):
                        judge_reject_node(ctx, {"value": v, "tag": tag, "use": use, "form": form, "testnet": bool(n & 1), "chain": gen.rbytes(rnd, 32),
                                                "depth": (0, 3)[(n >> 1) & 1] if not use.startswith("bip85") else 0, "index": rnd.choice([0, 1, 44])})
        for _ in range(ctx.scale(120, 6000)):
            v = rnd.randrange(N, 1 << 256)
            judge_reject_scalar(ctx, {"via": rnd.choice(["int", "from_int"]), "value": v, "tag": "rand>=n"})
            judge_reject_scalar(ctx, {"via": "wif", "payload": bytes([rnd.choice([0x80, 0xEF])]) + v.to_bytes(32, "big") + rnd.choice([b"\x01", b""]),
                                      "tag": "wif-rand>=n"})
        # ---- SEC forms of points with a coordinate in [n, p) (committed corpus): legal keys, must come back as themselves
        hc = gen.high_coordinate_points()
        ctx.extra["high_coordinate_point_corpus"] = len(hc)
        for pi, pt in enumerate(hc):
            n += 1
            if ctx.mine(n):
                judge_reject_sec(ctx, {"raw": secp.ser(pt, True), "tag": "coordinate>=n"})
                judge_reject_sec(ctx, {"raw": secp.ser(pt, False), "tag": "coordinate>=n"})
        # ---- orders of refused and accepted encodings of one x (fresh x each time)
        names = ["comp", "uncomp", "twin", "bad-y+1", "bad-y=0", "bad-y-flip"]
        for j in range(ctx.scale(96, 6000)):
            order = [rnd.choice(names[3:])] + rnd.sample(names, 4) if j % 2 == 0 else rnd.sample(names, 5)
            judge_sec_order(ctx, {"k": rnd.randrange(1, N), "order": order})
        # ---- SEC rejection / leniency
        for ln in range(0, 71):
            n += 1
            if ctx.mine(n):
                judge_reject_sec(ctx, {"raw": (b"\x02" + gen.rbytes(rnd, max(ln - 1, 0)))[:ln], "tag": "len"})
                judge_reject_sec(ctx, {"raw": gen.rbytes(rnd, ln) if ln else b"", "tag": "len-rand"})
        k0 = rnd.randrange(1, N)
        pt0 = secp.gmul(k0)
        for pre in range(256):
            n += 1
            if ctx.mine(n):
                judge_reject_sec(ctx, {"raw": bytes([pre]) + pt0[0].to_bytes(32, "big"), "tag": "prefix33" if pre not in (2, 3) else "prefix-ok"})
                judge_reject_sec(ctx, {"raw": bytes([pre]) + pt0[0].to_bytes(32, "big") + pt0[1].to_bytes(32, "big"),
                                       "tag": "prefix65" if pre not in (4, 6, 7) else "prefix-ok"})
        for _ in range(ctx.scale(500, 40000)):
            r = rnd.random()
            k = rnd.randrange(1, N)
            pt = secp.gmul(k)
            if r < 0.3:
                # x with no square root
                while True:
                    x = rnd.randrange(0, P)
                    if secp.lift_x(x, False) is None:
                        break
                raw, tag = bytes([rnd.choice([2, 3])]) + x.to_bytes(32, "big"), "x-nonresidue"
            elif r < 0.4:
                x = rnd.randrange(P, 1 << 256)
                raw, tag = bytes([rnd.choice([2, 3])]) + x.to_bytes(32, "big"), "x>=p"
            elif r < 0.6:
                y = (pt[1] + rnd.randrange(1, P)) % P
                raw, tag = b"\x04" + pt[0].to_bytes(32, "big") + y.to_bytes(32, "big"), "wrong-y"
            elif r < 0.7:
                pre = 6 if pt[1] & 1 else 7          # hybrid with inconsistent parity
                raw, tag = bytes([pre]) + pt[0].to_bytes(32, "big") + pt[1].to_bytes(32, "big"), "hybrid-bad-parity"
            elif r < 0.8:
                pre = 7 if pt[1] & 1 else 6
                raw, tag = bytes([pre]) + pt[0].to_bytes(32, "big") + pt[1].to_bytes(32, "big"), "hybrid-ok"
            elif r < 0.9:
                raw, tag = pt[0].to_bytes(32, "big") + pt[1].to_bytes(32, "big"), "raw64-ok"
            else:
                raw, tag = b"\x04" + pt[0].to_bytes(32, "big") + ((P - pt[1]) % P).to_bytes(32, "big"), "neg-y-valid"
            judge_reject_sec(ctx, {"raw": raw, "tag": tag})
        for j in range(ctx.scale(80, 4000)):
            judge_reject_point(ctx, {"k": gen.scalar(rnd)[1], "kind": ("valid-jacobian", "valid-jacobian-scaled", "y+1", "x+1", "swapped", "y=0", "broken-z", "other-curve")[j % 8]})
        for raw, tag in ((b"\x02" + b"\x00" * 32, "x=0"), (b"\x04" + b"\x00" * 64, "origin"), (b"\x00" * 64, "raw-origin"),
                         (b"\x02" + P.to_bytes(32, "big"), "x=p"), (b"\x02" + b"\xff" * 32, "x=ff")):
            n += 1
            if ctx.mine(n):
                judge_reject_sec(ctx, {"raw": raw, "tag": tag})
    finally:
        inst.remove()


def replay(ctx, monitor, case):
    if monitor == "pubkey":
        judge_pubkey(ctx, case)
    elif monitor in ("wif_roundtrip", "probe.PrivateKey.wif", "probe.PrivateKey.__init__"):
        case.setdefault("ktag", "replay")
        judge_wif(ctx, case)
    elif monitor == "reject_scalar" and "first" in case:
        case.pop("twin", None), case.pop("via", None)
        judge_reject_twin(ctx, case)
    elif monitor == "reject_scalar" and "use" in case:
        judge_reject_node(ctx, case)
    elif monitor == "reject_scalar":
        judge_reject_scalar(ctx, case)
    elif monitor == "reject_point":
        judge_reject_point(ctx, case)
    elif monitor == "reject_sec" and "order" in case:
        judge_sec_order(ctx, case)
    else:
        judge_reject_sec(ctx, case)
