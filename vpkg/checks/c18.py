"""C18 - invalid children are reported, never returned (fault enumeration via PRF substitution)."""
from .. import gen, bridge, inject
from ..ref import bip32 as rb32, bip85 as rb85, secp

PROP = "C18"
LEVEL = "fault_enumeration"
SHARDS = {"quick": 8, "thorough": 16}
TIMEOUT = {"quick": 900, "thorough": 7200}
THOROUGH_MULT = 6   # thorough budgets below are multiplied by this (sized for roughly five minutes on 16 cores)
REQUIRED = {"fault.ckd_priv": 300, "fault.ckd_pub": 200, "fault.master": 30, "fault.bip85": 60, "control": 400, "sequence": 40}
ANCHORS = ['bip32:PrvKeyNode.ckd', 'bip32:PubKeyNode.ckd', 'bip32:PrvKeyNode.master_key', 'bip85:BIP85DeterministicEntropy.correct_key', 'bip85:BIP85DeterministicEntropy.wif', 'bip85:BIP85DeterministicEntropy.xprv']
RULE = ("fault classes enumerated completely: CKDpriv (normal and hardened) IL in {n, n+1, 2^256-1, random>=n} and IL = n - k_par "
        "(child 0); CKDpub IL in {n, n+1, 2^256-1, random>=n} and IL = n - k_par (child = infinity); master IL in {0, n, n+1, "
        "2^256-1, random>=n}; BIP85 secret in {0, n, n+1, 2^256-1, random>=n} for wif and for the key half of xprv; x parents "
        "(scalar/depth/form classes) x index kinds; control group = nearest valid outputs must return and agree with the "
        "reference; fault sequences alternate invalid/valid stubs on the same parent; distinct = distinct (monitor, case) digests"
        " EXTENSIONS: + every derivation entry point, parents at depth 255, revisits under a fixed index->output table, BIP85 requests whose own walk meets IL >= n or IL = n - k_par at any hardened step")
LEVEL_TEXT = ("The HMAC is replaced from outside by a chosen-output function (the real arithmetic after the PRF runs "
              "unchanged), driving every 2^-127-probability branch: each invalid output must end in an exception, a returned "
              "node/string is the violation; valid neighbours must return the reference result, so over-rejection or an "
              "ineffective failpoint is noticed (a run in which the stub was never consulted is inconclusive).")
LEVEL_NOTE = "Trusted: reference model; the failpoint relies on module-global lookup of hmac_sha512 at call time (checked: stub call count > 0)."
TECHNIQUE = "fault injection: chosen-output PRF failpoint on the real derivation code + outcome monitor + valid-neighbour control group"
ASSUMPTIONS = ["ecdsa fallback backend (libsecp256k1 arms are dead code here)"]
N = secp.N
H = 1 << 31
TOP = (1 << 256) - 1


def _parent(case, public=False):
    xk = bridge.xkey_from_case(case)
    if public:
        return xk, bridge.mk_node(xk.neuter(), case["testnet"], case.get("form", "ctor"), public=True, purpose=case.get("vpurpose", 44))
    return xk, bridge.mk_node(xk, case["testnet"], case.get("form", "ctor"), purpose=case.get("vpurpose", 44))


ENTRY_POINTS = ("ckd", "derive_path", "generate_children", "generate_children_range", "wallet.by_path", "address_generator")


def _run_ckd(node, i, I, via="ckd"):
    """Derive child i of `node` through the chosen public entry point while the PRF returns I for exactly the
    (parent chain code, ...||ser32(i)) request and the real HMAC for everything else."""
    import btc_hd_wallet.bip32 as b32
    cc = bytes(node.chain_code)
    i4 = i.to_bytes(4, "big")

    def plan(key, msg):
        return I if (bytes(key) == cc and bytes(msg[-4:]) == i4) else None
    with inject.PRFStub([b32], plan=plan) as stub:
        try:
            if via == "derive_path":
                r = node.derive_path(index_list=[i])
            elif via == "generate_children":
                r = node.generate_children(interval=(i, i + 1))[0]
            elif via == "generate_children_range":
                lo = max(i - 2, 0 if i < H else H)
                kids = node.generate_children(interval=(lo, i + 2 if (i + 2 <= H or i >= H) and i + 2 < (1 << 32) else i + 1))
                r = next(k for k in kids if k.index == i)
            elif via == "wallet.by_path":
                from btc_hd_wallet.base_wallet import BaseWallet
                from ..ref import path as rpath
                r = BaseWallet(master=node, testnet=node.testnet).by_path(rpath.fmt([i], "m"))
            elif via == "address_generator" and i < 40:
                from btc_hd_wallet.base_wallet import BaseWallet
                g = BaseWallet(master=node, testnet=node.testnet).address_generator(node)
                y = next(g)
                if i:
                    y = g.send(i)
                # (the generator hands out (path, address) only; the node it derived is fetched again through ckd under the same
                #  PRF plan - the `children` container is the library's private bookkeeping and is not relied upon.  If ckd
                #  refuses what the generator has just handed out, the hand-out itself is what was returned.)
                try:
                    r = node.ckd(index=i)
                except Exception:  # noqa
                    r = {"address_generator_yielded": list(y)}
            else:
                r = node.ckd(index=i)
            err = None
        except StopIteration:
            r, err = None, RuntimeError("listing did not contain the requested child")
        except Exception as e:  # noqa
            from ..core import raised_by_harness
            if raised_by_harness(e):
                r, err = {"harness_side_error_after_the_call_returned": repr(e)}, None      # (the library did not refuse)
            else:
                r, err = None, e
    used = sum(1 for c in stub.calls if c[3])
    return r, err, used


def judge_fault_ckd(ctx, case):
    public = case["side"] == "pub"
    xk, node = _parent(case, public)
    i = case["index"]
    I = case["IL"].to_bytes(32, "big") + case["IR"]
    n0 = len(node.children)
    ident0 = bridge.node_obs(node)
    via = case.get("via", "ckd")
    r, err, used = _run_ckd(node, i, I, via)
    mon = "fault.ckd_" + ("pub" if public else "priv")
    if used == 0:
        ctx.note_inconclusive("PRF stub was not consulted by %s" % mon)
        return
    # the reference must agree that this output is invalid (guards the generator)
    try:
        (rb32.ckd_pub_from_I if public else rb32.ckd_priv_from_I)(xk.neuter() if public else xk, i, I)
        return None
    except rb32.InvalidChild:
        pass
    ok = err is not None
    obs = err if ok else (bridge.node_obs(r) if hasattr(r, "key") else r)
    if ok and bridge.node_obs(node) != ident0:
        ok, obs = False, {"parent_before": ident0, "parent_after": bridge.node_obs(node)}
    return ctx.judge(mon, ok, case, "raise", obs, cls="%s|%s|%s|%s" % (case["ftag"], "hard" if i >= H else "norm", case.get("form", "ctor"), via),
                     outcome="raised:" + type(err).__name__ if err is not None else "returned",
                     mech="C18.ckd_%s.returned" % ("priv" if not public else "pub") if err is None else "C18.ckd_%s.state_changed" % case["side"])


def judge_control_ckd(ctx, case):
    public = case["side"] == "pub"
    xk, node = _parent(case, public)
    i = case["index"]
    I = case["IL"].to_bytes(32, "big") + case["IR"]
    try:
        exp = (rb32.ckd_pub_from_I if public else rb32.ckd_priv_from_I)(xk.neuter() if public else xk, i, I)
    except rb32.InvalidChild:
        return None
    r, err, used = _run_ckd(node, i, I, case.get("via", "ckd"))
    if err is None and not hasattr(r, "key"):
        err = RuntimeError("ckd refused a child the address generator handed out: %r" % (r,))
    if err is not None:
        return ctx.judge("control", False, case, exp.fields(), err, cls="ctl|%s|%s|%s" % (case["side"], case["ftag"], case.get("via", "ckd")), outcome="raised",
                         mech="C18.control.over_rejects")
    bad = bridge.compare_node(r, exp, case["testnet"], not public)
    return ctx.judge("control", not bad, case, exp.fields(), bad, cls="ctl|%s|%s" % (case["side"], case["ftag"]), mech="C18.control.wrong_child")


def judge_master(ctx, case):
    import btc_hd_wallet.bip32 as b32
    I = case["IL"].to_bytes(32, "big") + case["IR"]
    invalid = case["IL"] == 0 or case["IL"] >= N
    with inject.PRFStub([b32], plan=lambda key, msg: I) as stub:
        try:
            r, err = b32.PrvKeyNode.master_key(bip39_seed=case["seed"], testnet=case["testnet"]), None
        except Exception as e:  # noqa
            r, err = None, e
    if not any(c[3] for c in stub.calls):
        ctx.note_inconclusive("PRF stub was not consulted by master_key")
        return
    layout_ok = stub.calls[0][0] == b"Bitcoin seed" and stub.calls[0][1] == case["seed"]
    if invalid:
        return ctx.judge("fault.master", err is not None, case, "raise", err if err is not None else bridge.node_obs(r), cls="master|" + case["ftag"],
                         outcome="raised" if err is not None else "returned", mech="C18.master.returned")
    if err is not None:
        return ctx.judge("control", False, case, "node", err, cls="ctl|master|" + case["ftag"], mech="C18.control.over_rejects")
    exp = rb32.master_from_I(I)
    bad = bridge.compare_node(r, exp, case["testnet"], True)
    if not layout_ok:
        bad.append(("prf_layout", (b"Bitcoin seed", case["seed"]), stub.calls[0][:2]))
    return ctx.judge("control", not bad, case, exp.fields(), bad, cls="ctl|master|" + case["ftag"], mech="C18.control.wrong_master")


def judge_bip85(ctx, case):
    import btc_hd_wallet.bip85 as b85mod
    xk = rb32.XKey(case["k"], None, case["c"])
    b = b85mod.BIP85DeterministicEntropy(master_node=bridge.mk_node(xk, False, "ctor"))
    app, idx = case["app"], case["index"]
    sec = case["secret"].to_bytes(32, "big")
    other = case["other"]
    ent = sec + other if app == "wif" else other + sec         # xprv: key = LAST 32 bytes
    invalid = case["secret"] == 0 or case["secret"] >= N
    with inject.PRFStub([b85mod], plan=lambda key, msg: ent) as stub:
        try:
            r, err = (b.wif(index=idx) if app == "wif" else b.xprv(index=idx)), None
        except Exception as e:  # noqa
            r, err = None, e
    subs = [c for c in stub.calls if c[3]]
    if not subs:
        ctx.note_inconclusive("PRF stub was not consulted by bip85.%s" % app)
        return
    # layout: key 'bip-entropy-from-k', msg = private key at the app path
    node = rb32.derive(xk, rb85.path_wif(idx) if app == "wif" else rb85.path_xprv(idx))
    layout_ok = subs[0][0] == b"bip-entropy-from-k" and subs[0][1] == rb32.ser256(node.k)
    if invalid:
        return ctx.judge("fault.bip85", err is not None, case, "raise", err if err is not None else r, cls="bip85|%s|%s" % (app, case["ftag"]),
                         outcome="raised" if err is not None else "returned", mech="C18.bip85.%s.returned" % app)
    if err is not None:
        return ctx.judge("control", False, case, "string", err, cls="ctl|bip85|" + app, mech="C18.control.over_rejects")
    want = rb85.wif_from_entropy(ent) if app == "wif" else rb85.xprv_from_entropy(ent)
    ok = r == want and layout_ok
    return ctx.judge("control", ok, case, want, r if layout_ok else ("layout", subs[0][:2]), cls="ctl|bip85|%s|%s" % (app, case["ftag"]),
                     mech="C18.control.wrong_bip85")


def judge_bip85_inner(ctx, case):
    """A BIP85 request whose OWN derivation walk (m/83696968'/app'/...) meets an invalid child at one of its hardened steps:
    the PRF returns the chosen IL for exactly the (chain code, 00||k_par||ser32(i)) of that step and the real HMAC everywhere
    else.  IL >= n, and IL = n - k_par (child key 0), must end the request with an error whichever way BIP85 walks its path."""
    import btc_hd_wallet.bip85 as b85mod
    import btc_hd_wallet.bip32 as b32
    xk = rb32.XKey(case["k"], None, case["c"])
    app, idx, level = case["app"], case["index"], case["level"]
    path = {"wif": lambda: rb85.path_wif(idx), "xprv": lambda: rb85.path_xprv(idx), "hex": lambda: rb85.path_hex(32, idx),
            "pwd": lambda: rb85.path_pwd(21, idx), "mnemonic": lambda: rb85.path_mnemonic(12, idx)}[app]()
    level = min(level, len(path) - 1)
    try:
        par = rb32.derive(xk, path[:level])
    except rb32.InvalidChild:
        return None
    il = {"n-kpar": (N - par.k) % N or N, "n": N, "n+1": N + 1, "top": TOP}.get(case["ftag"])
    if il is None:
        il = case["IL"]
    I = il.to_bytes(32, "big") + case["IR"]
    want_key, want_msg = par.c, b"\x00" + rb32.ser256(par.k) + path[level].to_bytes(4, "big")

    def plan(key, msg):
        return I if (bytes(key) == want_key and bytes(msg) == want_msg) else None
    b = b85mod.BIP85DeterministicEntropy(master_node=bridge.mk_node(xk, False, case.get("form", "ctor")))
    with inject.PRFStub([b85mod, b32], plan=plan) as stub:
        try:
            r = {"wif": lambda: b.wif(index=idx), "xprv": lambda: b.xprv(index=idx), "hex": lambda: b.hex(num_bytes=32, index=idx),
                 "pwd": lambda: b.pwd(pwd_len=21, index=idx), "mnemonic": lambda: b.bip39_mnemonic(word_count=12, index=idx)}[app]()
            err = None
        except Exception as e:  # noqa
            r, err = None, e
    used = sum(1 for c_ in stub.calls if c_[3])
    if not used:
        # (the walk did not ask for that step's HMAC in the expected layout: nothing was injected, nothing to judge)
        ctx.extra["bip85_inner_fault_not_consulted"] = ctx.extra.get("bip85_inner_fault_not_consulted", 0) + 1
        return None
    invalid = il >= N or (il + par.k) % N == 0
    if invalid:
        return ctx.judge("fault.bip85", err is not None, case, "raise", err if err is not None else r, cls="bip85-inner|%s|L%d|%s" % (app, level, case["ftag"]),
                         outcome="raised" if err is not None else "returned", mech="C18.bip85.inner_step.returned")
    if err is not None:
        return ctx.judge("control", False, case, "string", err, cls="ctl|bip85-inner|" + app, mech="C18.control.over_rejects")
    child = rb32.XKey((il + par.k) % N, None, case["IR"], par.depth + 1, path[level], par.fingerprint())
    try:
        final = rb32.derive(child, path[level + 1:])
    except rb32.InvalidChild:
        return None
    from ..ref.hashes import hmac_sha512 as _ref_hmac
    ent = _ref_hmac(b"bip-entropy-from-k", rb32.ser256(final.k))
    if app not in ("wif", "xprv"):
        return ctx.judge("control", isinstance(r, str) and len(r) > 0, case, "string", r, cls="ctl|bip85-inner|" + app, mech="C18.control.wrong_bip85")
    want = rb85.wif_from_entropy(ent) if app == "wif" else rb85.xprv_from_entropy(ent)
    return ctx.judge("control", r == want, case, want, r, cls="ctl|bip85-inner|%s|L%d" % (app, level), mech="C18.control.wrong_bip85")


def judge_sequence(ctx, case):
    """A fixed chosen-output PRF (a FUNCTION of the child index: some indexes map to invalid outputs, others to valid
    ones) and a sequence of requests on the SAME parent object that revisits indexes: an invalid child must be refused
    every time it is asked for, valid ones in between must be right, the parent's key material must not change."""
    import btc_hd_wallet.bip32 as b32
    public = case["side"] == "pub"
    xk, node = _parent(case, public)
    refpar = xk.neuter() if public else xk
    ident0 = bridge.node_obs(node)
    table = {int(i): (il, ir) for i, il, ir in case["table"]}
    bad = []

    def plan(key, msg):
        i = int.from_bytes(msg[-4:], "big")
        if i in table:
            il, ir = table[i]
            return il.to_bytes(32, "big") + ir
        return None

    with inject.PRFStub([b32], plan=plan) as stub:
        for step, i in enumerate(case["visits"]):
            il, ir = table[i]
            I = il.to_bytes(32, "big") + ir
            try:
                exp = (rb32.ckd_pub_from_I if public else rb32.ckd_priv_from_I)(refpar, i, I)
            except rb32.InvalidChild:
                exp = None
            try:
                r, err = node.ckd(index=i), None
            except Exception as e:  # noqa
                r, err = None, e
            nth = case["visits"][:step + 1].count(i)
            if exp is None:
                if err is None:
                    bad.append(("step%d.invalid_returned_on_request_%d" % (step, nth), "raise", bridge.node_obs(r)))
            elif err is not None:
                bad.append(("step%d.valid_after_fault_raised" % step, exp.fields(), err))
            else:
                b = bridge.compare_node(r, exp, case["testnet"], not public)
                if b:
                    bad.append(("step%d.valid_after_fault_wrong.%s" % (step, b[0][0]), b[0][1], b[0][2]))
            if bridge.node_obs(node) != ident0:
                bad.append(("step%d.parent_changed" % step, ident0, bridge.node_obs(node)))
        consulted = sum(1 for c in stub.calls if c[3])
    if consulted == 0:
        ctx.note_inconclusive("PRF stub was not consulted in a fault sequence")
        return
    # finally a real (unstubbed) derivation at an index the table does not cover still equals the reference
    try:
        free = next(j for j in range(5, 50) if j not in table)
        real = node.ckd(index=free)
        exp = (rb32.ckd_pub if public else rb32.ckd_priv)(refpar, free)
        b = bridge.compare_node(real, exp, case["testnet"], not public)
        if b:
            bad.append(("real_after_faults." + b[0][0], b[0][1], b[0][2]))
    except Exception as e:  # noqa
        bad.append(("real_after_faults.raised", None, e))
    tag = bad[0][0].split(".", 1)[1] if bad else ""
    return ctx.judge("sequence", not bad, case, None, bad[:4], cls="seq|%s|%d" % (case["side"], len(case["visits"])),
                     mech="C18.sequence." + tag.split(".")[0].rstrip("0123456789_"))


def gen_parent(rnd):
    ktag, k = gen.scalar(rnd)
    d = gen.depth(rnd)
    return {"k": k, "c": gen.chain_code(rnd)[1], "depth": d, "pindex": 0 if d == 0 else gen.index(rnd)[1],
            "pfp": b"\x00" * 4 if d == 0 else gen.rbytes(rnd, 4), "testnet": rnd.random() < 0.5, "ktag": ktag,
            "form": rnd.choice(["ctor", "str", "bytes"]), "vpurpose": rnd.choice([44, 49, 84])}


def invalid_ILs(rnd, k):
    return [("IL=n", N), ("IL=n+1", N + 1), ("IL=2^256-1", TOP), ("IL=random>=n", rnd.randrange(N, 1 << 256)),
            ("IL=n-k", (N - k) % N)]


def valid_ILs(rnd, k):
    out = [("IL=n-1", N - 1), ("IL=n-k-1", (N - k - 1) % N), ("IL=n-k+1", (N - k + 1) % N), ("IL=1", 1), ("IL=random", rnd.randrange(1, N))]
    return [(t, v) for t, v in out if 0 < v < N and (v + k) % N != 0]


def run(ctx):
    rnd = ctx.rnd
    for _ in range(ctx.scale(48, 5000)):
        base = gen_parent(rnd)
        k = base["k"]
        for side in ("prv", "pub"):
            for hard in ((False, True) if side == "prv" else (False,)):
                for ftag, il in invalid_ILs(rnd, k):
                    via = rnd.choice(ENTRY_POINTS)
                    idx = gen.index(rnd, hardened=hard)[1] if via != "address_generator" or hard else rnd.randrange(0, 30)
                    if via == "wallet.by_path" and base["depth"] != 0:
                        via = "derive_path"
                    c = dict(base, side=side, index=idx, IL=il, IR=gen.rbytes(rnd, 32), ftag=ftag, via=via)
                    if rnd.random() < 0.2:
                        # a parent at the LAST representable depth (its child's depth does not fit a byte any more): an invalid
                        # child must be reported here like everywhere else (no control group at this depth)
                        c.update(depth=255, pindex=c["pindex"] or 1, pfp=c["pfp"] if c["depth"] else b"\x01\x02\x03\x04", ktag=c["ktag"] + "|depth255")
                        if c["via"] == "wallet.by_path":
                            c["via"] = "derive_path"
                    judge_fault_ckd(ctx, c)
                for ftag, il in valid_ILs(rnd, k):
                    via = rnd.choice(ENTRY_POINTS)
                    idx = gen.index(rnd, hardened=hard)[1] if via != "address_generator" or hard else rnd.randrange(0, 30)
                    if via == "wallet.by_path" and base["depth"] != 0:
                        via = "derive_path"
                    c = dict(base, side=side, index=idx, IL=il, IR=gen.rbytes(rnd, 32), ftag=ftag, via=via)
                    judge_control_ckd(ctx, c)
    for j in range(ctx.scale(16, 800)):
        for ftag, il in [("IL=0", 0), ("IL=n", N), ("IL=n+1", N + 1), ("IL=2^256-1", TOP), ("IL=random>=n", rnd.randrange(N, 1 << 256)),
                         ("IL=1", 1), ("IL=n-1", N - 1), ("IL=random", rnd.randrange(1, N))]:
            judge_master(ctx, {"seed": gen.rbytes(rnd, rnd.choice([16, 32, 64])), "testnet": bool(j & 1), "IL": il, "IR": gen.rbytes(rnd, 32), "ftag": ftag})
    for j in range(ctx.scale(16, 800)):
        ktag, k = gen.scalar(rnd)
        for app in ("wif", "xprv"):
            for ftag, sec in [("s=0", 0), ("s=n", N), ("s=n+1", N + 1), ("s=2^256-1", TOP), ("s=random>=n", rnd.randrange(N, 1 << 256)),
                              ("s=1", 1), ("s=n-1", N - 1), ("s=random", rnd.randrange(1, N))]:
                # the OTHER half is chosen valid/invalid independently: checking the wrong half must be noticed
                other = rnd.choice([b"\x00" * 32, N.to_bytes(32, "big"), gen.rbytes(rnd, 32), (1).to_bytes(32, "big")])
                judge_bip85(ctx, {"k": k, "c": gen.rbytes(rnd, 32), "app": app, "index": rnd.choice([0, 1, H - 1]), "secret": sec,
                                  "other": other, "ftag": ftag})
    for j in range(ctx.scale(24, 1200)):
        ktag, k = gen.scalar(rnd)
        for app in ("wif", "xprv", "hex", "pwd", "mnemonic"):
            for ftag in ("n-kpar", "n", "n+1", "top", "valid"):
                judge_bip85_inner(ctx, {"k": k, "c": gen.rbytes(rnd, 32), "app": app, "index": rnd.choice([0, 1, H - 1]), "level": rnd.randrange(0, 5),
                                        "ftag": ftag, "IL": rnd.randrange(1, N), "IR": gen.rbytes(rnd, 32), "form": rnd.choice(["ctor", "str"])})
    for j in range(ctx.scale(48, 3000)):
        base = gen_parent(rnd)
        side = ("prv", "pub")[j & 1]
        k = base["k"]
        table, idxs = [], []
        for s_ in range(rnd.randrange(3, 7)):
            pool = invalid_ILs(rnd, k) if s_ % 2 == 0 else valid_ILs(rnd, k)
            ftag, il = rnd.choice(pool)
            while True:
                i = gen.index(rnd, hardened=False if side == "pub" else None)[1]
                if i not in idxs:
                    break
            idxs.append(i)
            table.append((i, il, gen.rbytes(rnd, 32)))
        visits = list(idxs) + [rnd.choice(idxs) for _ in range(rnd.randrange(2, 6))]     # revisits: 2nd, 3rd ... request of the same child
        judge_sequence(ctx, dict(base, side=side, table=table, visits=visits))


def replay(ctx, monitor, case):
    if monitor.startswith("fault.ckd"):
        judge_fault_ckd(ctx, case)
    elif monitor == "fault.master":
        judge_master(ctx, case)
    elif monitor == "fault.bip85" and "level" in case:
        judge_bip85_inner(ctx, case)
    elif monitor == "fault.bip85":
        judge_bip85(ctx, case)
    elif monitor == "sequence" or "table" in case:
        case["table"] = [tuple(s) for s in case["table"]]
        judge_sequence(ctx, case)
    elif "app" in case and "level" in case:
        judge_bip85_inner(ctx, case)
    elif "app" in case:
        judge_bip85(ctx, case)
    elif "seed" in case:
        judge_master(ctx, case)
    else:
        judge_control_ckd(ctx, case)
