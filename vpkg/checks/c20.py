"""C20 - CLI: bad arguments yield no wallet output; good ones equal the API result."""
import contextlib
import hashlib
import io
import json
import os
import re
import shutil
import subprocess
import sys
import tempfile

from .. import gen, inject, probes, longrun
from ..core import REPO
from ..ref import bip32 as rb32, bip39 as rb39, paper as rpaper, addr as raddr, path as rpath
from .c14 import leaves

PROP = "C20"
LEVEL = "exploration"
SHARDS = {"quick": 8, "thorough": 16}
TIMEOUT = {"quick": 1500, "thorough": 10800}
REQUIRED = {"inproc": 500, "subprocess": 48, "outcome.exit0_equals_api": 150, "outcome.nonzero_no_output": 250, "file_effects": 500}
ANCHORS = ['__main__:main', '__main__:parse_args', '__main__:paranoia_mode', '__main__:file_', '__main__:address_index', '__main__:account_index', 'paper_wallet:PaperWallet.export_wallet', 'paper_wallet:PaperWallet.pprint']
RULE = ("argv grammar over the five sub-commands and the global options with values on both sides of every validator bound "
        "(account -1/0/2^31-2/2^31-1/2^31, interval ends -1/0/1/2^31-1/2^31/2^31+1/2^32-2/2^32-1/start>end, mnemonic word counts "
        "11..25 with odd spacing, seed/entropy hex of every length class, non-hex, whitespace, 0x; extended keys of 110/111/112 "
        "chars, bad checksum, public keys, all 12 prefixes, non-master depth; -f path states: new, existing, directory, symlink "
        "to file, dangling symlink, missing parent, file-as-parent; option order permutations, duplicated options, missing "
        "command, unknown options); each argv run in-process (audit hook + probes) and a sample as real subprocesses (directory "
        "diff, some under strace); distinct = distinct (monitor, case) digests"
        " EXTENSIONS: + decoy sibling files (target.tmp, target~, .target.swp ...) that must survive, symlinks with relative targets named from another directory / chained / to the parent directory, accounts equal to meaningful numbers, values wrapping modulo 2^32, reversed straddling intervals, the request handed to PaperWallet.generate for intervals of K-1 .. 2K+1 rows per harvested K and of 2^31 rows (recorder; mismatch confirmed end to end in fast mode), export targets on another file system (EXDEV for rename / link) with decoys there, the file name '-' (a file or standard output) and '~/wallet.json' with HOME holding that file")
LEVEL_TEXT = ("Outcome-based monitor on real CLI executions: a non-zero exit must come with no wallet data on stdout and no "
              "file created or modified (directory diff + audit 'open' events + strace on a sample); exit 0 must print/save JSON "
              "identical to what the library API returns for the same secret/network/account/interval (through an independent "
              "whitelist filter under --paranoia) with every row BIP44-shaped per the reference path parser; existing files are "
              "never overwritten whatever the exit status.")
LEVEL_NOTE = ("Trusted: reference model/classifier, the library API as the comparison point for exit-0 runs (the API itself is "
              "judged by C06). Running as root: 'unwritable parent' cannot be produced and is not generated.")
TECHNIQUE = "runtime outcome monitor on real CLI runs (in-process with audit hook + probes; subprocess with directory diff and strace)"
ASSUMPTIONS = ["ecdsa fallback backend", "harness runs as root (permission-denied states are not reachable)"]
H = 1 << 31
WALLET_KEYS = ("MASTER", "BIP85", "BIP44", "BIP49", "BIP84", "account_extended_keys", "groups")


# ------------------------------------------------------------------ environment snapshot
def other_filesystem_dir():
    """A fresh directory on a file system OTHER than the one scratch directories live on (rename / link across the two fails
    with EXDEV), or None when this machine has none that is writable."""
    here = os.stat(tempfile.gettempdir()).st_dev
    for cand in ("/dev/shm", "/run/shm", "/var/tmp", "/run/user/%d" % os.getuid(), os.path.expanduser("~")):
        try:
            if os.path.isdir(cand) and os.stat(cand).st_dev != here and os.access(cand, os.W_OK):
                return tempfile.mkdtemp(prefix="vp-c20-otherfs-", dir=cand)
        except OSError:
            continue
    return None


def scratch_rel(path, d):
    """Key of `path` in snap(d): relative to d, with what lies behind the `otherfs` link (another file system) mapped back
    under it; None for a path outside the scratch area."""
    rp = os.path.realpath(path)
    rd = os.path.realpath(d)
    if rp.startswith(rd + os.sep):
        return os.path.relpath(rp, rd)
    link = os.path.join(d, "otherfs")
    if os.path.islink(link):
        ro = os.path.realpath(link)
        if rp.startswith(ro + os.sep):
            return os.path.join("otherfs", os.path.relpath(rp, ro))
    return None


def snap(d):
    out = {}
    for root, dirs, files in os.walk(d, followlinks=True):
        for name in dirs + files:
            p = os.path.join(root, name)
            rel = os.path.relpath(p, d)
            if os.path.islink(p):
                out[rel] = ("link", os.readlink(p))
            elif os.path.isdir(p):
                out[rel] = ("dir",)
            else:
                out[rel] = ("file", hashlib.sha256(open(p, "rb").read()).hexdigest())
    return out


def prepare_dir(d, fcase):
    """Create the file-system state for the -f argument; returns the argv value (relative to d) or None."""
    kind = fcase["kind"]
    os.makedirs(os.path.join(d, "sub"), exist_ok=True)
    open(os.path.join(d, "keep.txt"), "w").write("precious\n")
    # DECOY siblings: names an implementation might pick for a temporary / backup / lock file next to the target - they are
    # somebody's files and must survive whatever the command does
    for base in ("wallet.json", os.path.join("sub", "w.json"), "abs.json"):
        for pat in ("%s.tmp", "%s~", "%s.bak", "%s.new", "%s.part", "%s.lock", "%s.swp", "%s.old", "%s.1", ".%s.tmp", ".%s.swp", "%s.temp", "tmp_%s", "%s.orig"):
            dn, bn = os.path.split(base)
            open(os.path.join(d, dn, pat % bn), "w").write("decoy of %s\n" % base)
    for name in ("tmp", "temp", ".tmp", "wallet", "wallet.json.d"):
        open(os.path.join(d, name), "w").write("decoy\n")
    if kind == "none":
        return None
    if kind == "new":
        return "wallet.json"
    if kind == "new-in-subdir":
        return os.path.join("sub", "w.json")
    if kind == "new-absolute":
        return os.path.join(d, "abs.json")
    if kind in ("new-on-other-filesystem", "new-on-other-filesystem-absolute"):
        # the target's directory lives on another file system than the working directory and the system temp directory
        other = other_filesystem_dir()
        if other is None:
            return "wallet.json"
        os.symlink(other, os.path.join(d, "otherfs"))
        for pat in ("%s.tmp", "%s~", ".%s.tmp", "%s.part"):
            open(os.path.join(other, pat % "w.json"), "w").write("decoy\n")
        return os.path.join("otherfs", "w.json") if kind == "new-on-other-filesystem" else os.path.join(other, "w.json")
    if kind == "odd-name-dash":
        return "-"                  # (a file called '-'; an implementation may also read it as "standard output")
    if kind == "odd-name-tilde":
        return "~"
    if kind == "odd-name-space":
        return " w.json"
    if kind == "tilde-existing":
        # HOME (set for this run) holds wallet.json; '~/wallet.json' names - depending on whether the command line expands the
        # tilde - either that existing file or a path below a directory '~' that does not exist: refused both ways
        os.makedirs(os.path.join(d, "home"), exist_ok=True)
        open(os.path.join(d, "home", "wallet.json"), "w").write("{\"precious\": \"in HOME\"}\n")
        return "~/wallet.json"
    if kind == "existing":
        return "keep.txt"
    if kind == "existing-absolute":
        return os.path.join(d, "keep.txt")
    if kind == "directory":
        return "sub"
    if kind == "symlink-to-file":
        os.symlink("keep.txt", os.path.join(d, "lnk"))
        return "lnk"
    if kind in ("symlink-in-subdir-relative", "symlink-in-subdir-via-absolute-path", "symlink-chain", "symlink-to-parent-file"):
        # links whose stored target is RELATIVE (to the link's own directory, not to the working directory), named from
        # somewhere else: they all lead to an existing file, which must survive
        open(os.path.join(d, "sub", "real.json"), "w").write("{\"precious\": true}\n")
        if kind == "symlink-chain":
            os.symlink("real.json", os.path.join(d, "sub", "hop"))
            os.symlink(os.path.join("sub", "hop"), os.path.join(d, "chain"))
            return "chain"
        if kind == "symlink-to-parent-file":
            os.symlink(os.path.join("..", "keep.txt"), os.path.join(d, "sub", "up"))
            return os.path.join("sub", "up")
        os.symlink("real.json", os.path.join(d, "sub", "wallet.json"))
        return os.path.join("sub", "wallet.json") if kind == "symlink-in-subdir-relative" else os.path.join(d, "sub", "wallet.json")
    if kind == "dangling-symlink":
        os.symlink("nowhere.json", os.path.join(d, "dangling"))
        return "dangling"
    if kind == "missing-parent":
        return os.path.join("nope", "w.json")
    if kind == "file-as-parent":
        return os.path.join("keep.txt", "w.json")
    if kind == "empty":
        return ""
    if kind == "dot":
        return "."
    raise ValueError(kind)


# ------------------------------------------------------------------ case -> argv
def build_argv(case, fval):
    g = []
    opts = []
    if fval is not None:
        opts.append([case["file"].get("flag", "-f"), fval])
    if case.get("testnet"):
        opts.append(["--testnet"])
    if case.get("paranoia"):
        opts.append(["--paranoia"])
    if case.get("account_s") is not None:
        opts.append(["--account", case["account_s"]])
    if case.get("interval_s") is not None:
        opts.append(["--interval"] + list(case["interval_s"]))
    order = case.get("order")
    if order:
        opts = [opts[i] for i in order if i < len(opts)] + [o for j, o in enumerate(opts) if j not in order]
    for o in case.get("extra_global", []):          # extras (duplicates, bogus options) always come last: "last one wins"
        opts.append(list(o))
    for o in opts:
        g += o
    cmd = case["cmd"]
    if cmd is None:
        return g
    tail = [cmd] + list(case.get("cmd_args", []))
    return g + tail + list(case.get("trailing", []))


def denote_int(s):
    try:
        return int(s)
    except (ValueError, TypeError):
        return None


def api_expected(case):
    """What the library API returns for the secret/network/account/interval the argv denotes; None if it raises."""
    from btc_hd_wallet.paper_wallet import PaperWallet
    acct = denote_int(case["account_s"]) if case.get("account_s") is not None else 0
    iv = [denote_int(x) for x in case["interval_s"]] if case.get("interval_s") is not None else [0, 20]
    if acct is None or any(v is None for v in iv):
        return "undenotable", None
    tn = bool(case.get("testnet"))
    if case.get("dup"):
        acct, tn = 2, True
    src = case["source"]
    cmd = case["cmd"]
    try:
        if cmd == "from-mnemonic":
            w = PaperWallet.from_mnemonic(mnemonic=src["mnemonic"].strip(), password=src.get("password", ""), testnet=tn)
        elif cmd == "from-entropy-hex":
            w = PaperWallet.from_entropy_hex(entropy_hex=src["hex"], password=src.get("password", ""), testnet=tn)
        elif cmd == "from-bip39-seed":
            w = PaperWallet.from_bip39_seed_hex(bip39_seed=src["hex"], testnet=tn)
        elif cmd == "from-master-xprv":
            w = PaperWallet.from_extended_key(extended_key=src["key"])
        else:
            return "new", None
        data = w.generate(account=acct, interval=iv)
    except Exception as e:  # noqa
        return "api-raises", e
    return "ok", data


def has_wallet_data(text):
    """Wallet data = a JSON object carrying wallet keys, or any token that classifies as address / WIF / extended key /
    a checksum-valid mnemonic run."""
    try:
        o = json.loads(text)
        if isinstance(o, dict) and any(k in o for k in WALLET_KEYS):
            return "json-with-wallet-keys"
    except ValueError:
        pass
    for tok in re.split(r'[\s",\[\]{}:]+', text):
        if len(tok) < 26:
            continue
        c = raddr.classify_string(tok)
        if c["class"] in ("address", "wif", "xprv", "xpub"):
            return "token:" + c["class"]
    if raddr.contains_mnemonic_run(re.sub(r'[",]', " ", text)):
        return "mnemonic-run"
    return None


def rows_bip44_shaped(data):
    bad = []
    for p in (44, 49, 84):
        blk = data.get("BIP%d" % p)
        if not isinstance(blk, dict):
            bad.append(("BIP%d" % p, "missing"))
            continue
        try:
            _r, ap = rpath.parse_strict(blk["account_extended_keys"]["path"])
            if len(ap) != 3 or any(i < H for i in ap) or ap[0] != p + H:
                bad.append(("account_path", blk["account_extended_keys"]["path"]))
        except rpath.PathError:
            bad.append(("account_path", blk["account_extended_keys"].get("path")))
        for row in blk["groups"]:
            try:
                _r, rp = rpath.parse_strict(row[0])
            except rpath.PathError:
                bad.append(("row_path_unparseable", row[0]))
                continue
            if len(rp) != 5 or any(i < H for i in rp[:3]) or any(i >= H for i in rp[3:]) or rp[0] != p + H or rp[1] - H not in (0, 1) or rp[3] != 0:
                bad.append(("row_not_bip44_shaped", row[0]))
    return bad


# ------------------------------------------------------------------ running
def run_inproc(argv, cwd, captured):
    import runpy
    out, err = io.StringIO(), io.StringIO()
    old_argv, old_cwd = sys.argv, os.getcwd()
    sys.argv = ["__main__.py"] + argv
    os.chdir(cwd)
    log = inject.AuditLog.get()
    code, exc = 0, None
    try:
        with log.window() as win, contextlib.redirect_stdout(out), contextlib.redirect_stderr(err):
            try:
                # exactly what `python -m btc_hd_wallet` executes (no dependence on the name of an entry function)
                runpy.run_module("btc_hd_wallet", run_name="__main__", alter_sys=False)
            except SystemExit as e:
                code = e.code if isinstance(e.code, int) else (0 if e.code is None else 1)
            except BaseException as e:  # noqa - an uncaught exception ends a real process with status 1
                code, exc = 1, e
    finally:
        sys.argv = old_argv
        os.chdir(old_cwd)
    return {"rc": code, "stdout": out.getvalue(), "stderr": err.getvalue(), "exc": exc, "audit": win.effects()}


def run_subproc(argv, cwd, strace=False):
    env = dict(os.environ, PYTHONPATH=os.path.realpath(REPO), PYTHONDONTWRITEBYTECODE="1", PYTHONHASHSEED="0")
    cmd = [sys.executable] + (["-O"] if sys.flags.optimize else []) + ["-m", "btc_hd_wallet"] + argv
    tr = None
    if strace and shutil.which("strace"):
        tr = tempfile.mktemp(prefix="vp-c20-trace-")
        cmd = ["strace", "-f", "-e", "trace=openat,open,creat,unlink,unlinkat,rename,renameat,renameat2", "-o", tr] + cmd
    p = subprocess.run(cmd, cwd=cwd, env=env, capture_output=True, text=True, timeout=600)
    created = []
    if tr and os.path.exists(tr):
        for line in open(tr, errors="replace"):
            m = re.search(r'(openat|open|creat)\((?:AT_FDCWD, )?"([^"]+)", ([^)]*)\)\s*=\s*(-?\d+)', line)
            if m and ("O_CREAT" in m.group(3) or "O_TRUNC" in m.group(3) or "O_WRONLY" in m.group(3) or "O_RDWR" in m.group(3) or m.group(1) == "creat"):
                if int(m.group(4)) >= 0 and not m.group(2).startswith("/dev/"):
                    created.append(m.group(2))
            elif re.search(r'(unlink|rename)', line) and "= 0" in line:
                created.append("MODIFY:" + line.strip()[:120])
        os.remove(tr)
    return {"rc": p.returncode, "stdout": p.stdout, "stderr": p.stderr, "exc": None, "audit": None, "strace_writes": created if tr else None}


def judge_run(ctx, case, mode):
    d = tempfile.mkdtemp(prefix="vp-c20-")
    captured = {}
    try:
        fval = prepare_dir(d, case["file"])
        argv = build_argv(case, fval)
        before = snap(d)
        old_home = os.environ.get("HOME")
        if case["file"]["kind"] == "tilde-existing":
            os.environ["HOME"] = os.path.join(d, "home")
        try:
            if mode == "inproc":
                res = run_inproc(argv, d, captured)
            else:
                res = run_subproc(argv, d, strace=(mode == "strace"))
        finally:
            if case["file"]["kind"] == "tilde-existing":
                if old_home is None:
                    os.environ.pop("HOME", None)
                else:
                    os.environ["HOME"] = old_home
        after = snap(d)
        ctx.reach(mode if mode != "strace" else "subprocess")
        if mode == "strace":
            ctx.reach("strace")
        rc = res["rc"]
        log_case = dict(case, argv=argv, mode=mode)
        cls_cmd = case["cmd"] or "nocmd"
        # ---- file effects (whatever the exit status)
        changed = {k for k in before if after.get(k) != before[k]}
        new = {k for k in after if k not in before}
        allowed_new = set()
        if rc == 0 and fval not in (None, ""):
            tgt = os.path.realpath(os.path.join(d, fval))
            allowed_new.add(scratch_rel(tgt, d) or os.path.relpath(tgt, d))
        fbad = []
        if changed:
            fbad.append(("existing_modified", sorted(changed)))
        if new - allowed_new:
            fbad.append(("unexpected_file_created", sorted(new - allowed_new)))
        if res["audit"] is not None:
            # audit 'open' events are ATTEMPTS (raised before the syscall): an attempt counts only if the path exists afterwards.
            # This also covers paths outside the scratch directory, which the directory diff cannot see.
            for ev in res["audit"]:
                if ev[0] == "open-write":
                    p = os.path.realpath(ev[1] if os.path.isabs(ev[1]) else os.path.join(d, ev[1]))
                    inside = scratch_rel(p, d) is not None
                    if os.path.lexists(p) and (not inside or scratch_rel(p, d) not in allowed_new):
                        fbad.append(("audit_write_open", ev[1]))
                elif ev[0] in ("os.remove", "os.rename", "os.truncate", "os.rmdir", "shutil.rmtree"):
                    # an implementation may write a temporary file of ITS OWN making and move it onto the new target, or delete
                    # it again (atomic export): harmless.  What counts is a path that existed BEFORE the run.
                    src = os.path.realpath(ev[1] if os.path.isabs(ev[1]) else os.path.join(d, ev[1]))
                    src_in = scratch_rel(src, d) is not None
                    own_temp = src_in and scratch_rel(src, d) not in before
                    if ev[0] == "os.rename" and len(ev) > 2:
                        dst = os.path.realpath(ev[2] if os.path.isabs(ev[2]) else os.path.join(d, ev[2]))
                        dst_ok = scratch_rel(dst, d) is not None and (scratch_rel(dst, d) in allowed_new or scratch_rel(dst, d) not in before)
                        if own_temp and dst_ok:
                            continue
                    elif ev[0] == "os.remove" and own_temp:
                        continue
                    fbad.append(("audit_effect", ev))
        if res.get("strace_writes"):
            # transient temp files made by the interpreter / dependency loading (e.g. ctypes.util.find_library running gcc while
            # pysecp256k1 probes for libsecp256k1) are created and unlinked before exit: only files that PERSIST count.
            for p in res["strace_writes"]:
                if p.startswith("MODIFY:"):
                    continue
                rp = os.path.realpath(p if os.path.isabs(p) else os.path.join(d, p))
                if not os.path.lexists(rp) or "__pycache__" in rp or rp.endswith(".pyc"):
                    continue
                inside = scratch_rel(rp, d) is not None
                if not inside or scratch_rel(rp, d) not in allowed_new:
                    fbad.append(("strace_persisting_file", p))
        ctx.judge("file_effects", not fbad, log_case, {"allowed_new": sorted(allowed_new)}, fbad[:4],
                  cls="fx|%s|%s|rc%s" % (case["file"]["kind"], mode, "0" if rc == 0 else "n"), mech="C20.file." + (fbad[0][0] if fbad else ""))
        # ---- exit != 0 => no wallet data on stdout
        if rc != 0:
            hw = has_wallet_data(res["stdout"])
            ctx.judge("outcome.nonzero_no_output", hw is None, log_case, "no wallet data on stdout", {"found": hw, "stdout": res["stdout"][:300]},
                      cls="nz|%s|%s|%s" % (cls_cmd, case.get("fault", "valid"), mode), outcome="rc=%s" % rc, mech="C20.nonzero_with_output")
            return
        # ---- exit 0 on an explicit help request: usage text only, no wallet data, no file (argparse convention)
        if any(a in ("-h", "--help") for a in argv) and not after.keys() - before.keys():
            hw = has_wallet_data(res["stdout"])
            ctx.judge("outcome.help", hw is None, log_case, "usage text only", {"found": hw}, cls="help|" + mode, mech="C20.help_with_wallet_data")
            return
        # ---- exit == 0 => JSON (stdout or the new file) identical to the API result
        if fval not in (None, ""):
            tgt = os.path.join(d, fval)
            text = open(tgt).read() if os.path.isfile(tgt) else None
            if fval == "-" and text is None and res["stdout"].strip():
                text = res["stdout"]           # ('-' read as standard output: a convention, not a fault)
            elif text is None or res["stdout"].strip():
                ctx.judge("outcome.exit0_equals_api", False, log_case, "JSON saved to the requested new file, stdout empty",
                          {"file_exists": text is not None, "stdout": res["stdout"][:200]}, cls="ok|file-missing", mech="C20.exit0_file_not_written")
                return
        else:
            text = res["stdout"]
        try:
            got = json.loads(text)
        except ValueError as e:
            ctx.judge("outcome.exit0_equals_api", False, log_case, "JSON", str(e) + ": " + text[:200], cls="ok|notjson", mech="C20.exit0_not_json")
            return
        kind, exp = api_expected(case)
        if case["cmd"] == "new":
            kind, exp = expected_for_new(case, got, captured, mode)
        cls = "ok|%s|%s|%s|%s" % (cls_cmd, "paranoia" if case.get("paranoia") else "full", "file" if fval else "stdout", mode)
        if kind == "undenotable":
            ctx.judge("outcome.exit0_equals_api", False, log_case, "non-zero exit (value is not an integer)", "exit 0", cls=cls, mech="C20.accepted_unparseable")
            return
        if kind == "api-raises":
            ctx.judge("outcome.exit0_equals_api", False, log_case, "non-zero exit (the API raises: %r)" % (exp,), "exit 0 with output", cls=cls,
                      mech="C20.exit0_but_api_raises")
            return
        if kind == "skip":
            return
        want = rpaper.paranoia(json.loads(json.dumps(exp))) if case.get("paranoia") else json.loads(json.dumps(exp))
        dd = rpaper.diff(want, got)
        shape = rows_bip44_shaped(got)
        ok = not dd and not shape
        ctx.judge("outcome.exit0_equals_api", ok, log_case, None, {"diff": dd[:3], "shape": shape[:3]}, cls=cls,
                  mech="C20.rows_not_bip44" if shape else "C20.exit0_differs_from_api")
    finally:
        link = os.path.join(d, "otherfs")
        if os.path.islink(link):
            shutil.rmtree(os.path.realpath(link), ignore_errors=True)
        shutil.rmtree(d, ignore_errors=True)


def expected_for_new(case, got, captured, mode):
    """`new`: the secret is read back from MASTER (non-paranoia) or captured by the probe (in-process, paranoia);
    subprocess paranoia runs are checked for internal consistency (rows re-derived publicly from the account xpub)."""
    from btc_hd_wallet.paper_wallet import PaperWallet
    acct = denote_int(case["account_s"]) if case.get("account_s") is not None else 0
    iv = [denote_int(x) for x in case["interval_s"]] if case.get("interval_s") is not None else [0, 20]
    if acct is None or any(v is None for v in iv):
        return "undenotable", None
    tn = bool(case.get("testnet"))
    if case.get("dup"):
        acct, tn = 2, True
    mn = pw = None
    if not case.get("paranoia") and isinstance(got.get("MASTER"), dict):
        mn, pw = got["MASTER"].get("mnemonic"), got["MASTER"].get("password")
    elif mode == "inproc" and NEW_WALLETS:
        w = NEW_WALLETS[-1]
        mn, pw = w.mnemonic, w.password
    if mn is not None:
        words = mn.split(" ")
        want_len = case["source"].get("mnemonic_len", 24)
        if len(words) != want_len or pw != case["source"].get("password", ""):
            return "api-raises", "new wallet has %d words / password %r, requested %d / %r" % (len(words), pw, want_len, case["source"].get("password", ""))
        e, okc = rb39.decode(words)
        if not okc:
            return "api-raises", "fresh mnemonic has an invalid checksum"
        return "ok", PaperWallet.from_mnemonic(mnemonic=mn, password=pw, testnet=tn).generate(account=acct, interval=iv)
    # subprocess + paranoia: internal consistency from the printed account xpubs
    bad = []
    for p in (44, 49, 84):
        blk = got.get("BIP%d" % p, {})
        try:
            ver, acc, isprv = rb32.parse_xkey(blk["account_extended_keys"]["pub"])
            ch = rb32.ckd_pub(acc, 0)
            for j, row in enumerate(blk["groups"]):
                n = rb32.ckd_pub(ch, iv[0] + j)
                if row[2] != n.sec().hex() or row[1] != raddr.KINDS[rpaper.ADDR_KIND[p]](n.sec(), tn):
                    bad.append(("row_inconsistent", row[0]))
            if len(blk["groups"]) != len(range(iv[0], iv[1])):
                bad.append(("row_count", len(blk["groups"])))
        except Exception as e:  # noqa
            bad.append(("consistency", repr(e)))
    if bad:
        return "api-raises", bad[:3]
    return "skip", None


NEW_WALLETS = []


def install_probes():
    from btc_hd_wallet.base_wallet import BaseWallet
    inst = probes.Installed()

    def on_new(name, a, kw, res, exc):
        if exc is None:
            NEW_WALLETS.append(res)
            del NEW_WALLETS[:-2]
    probes.observe_method(inst, BaseWallet, "new_wallet", on_new)
    return inst


# ------------------------------------------------------------------ generators
FILE_KINDS = ["none", "none", "none", "none", "new", "new", "new-in-subdir", "new-absolute", "new-on-other-filesystem", "new-on-other-filesystem-absolute",
              "existing", "existing-absolute", "directory", "odd-name-dash", "tilde-existing",
              "symlink-to-file", "dangling-symlink", "missing-parent", "file-as-parent", "empty", "dot",
              "symlink-in-subdir-relative", "symlink-in-subdir-via-absolute-path", "symlink-chain", "symlink-to-parent-file"]
ACCOUNTS = [("valid", "0"), ("valid", "1"), ("valid", "7"), ("valid", "44"), ("valid", "49"), ("valid", "84"), ("valid", "83696968"), ("valid", "1000000"),
            ("valid", str(H - 2)), ("bound", str(H - 1)), ("bound", str(H)), ("bound", "-1"),
            ("junk", "abc"), ("junk", "1.5"), ("junk", ""), ("lenient", "+3"), ("lenient", " 4"), ("lenient", "1_0"), ("bound", str(1 << 32))]
IV_ENDS = [-1, 0, 1, 2, H - 1, H, H + 1, (1 << 32) - 2, (1 << 32) - 1, 1 << 32]


def gen_interval(rnd):
    r = rnd.random()
    if r < 0.35:
        s = rnd.choice([0, 0, 1, 5, 100, H - 3])
        return ("valid", [str(s), str(s + rnd.randrange(0, 4))])
    if r < 0.45:
        return ("valid-top", [str(H - 2), str(H)]) if rnd.random() < 0.5 else ("valid-top", [str(H - 1), str(H)])
    if r < 0.7:
        a, b = rnd.choice(IV_ENDS), rnd.choice(IV_ENDS)
        if b - a > 4:
            b = a + rnd.randrange(0, 4)
        return ("bound", [str(a), str(b)])
    if r < 0.8:
        s = rnd.randrange(H, (1 << 32) - 8)
        return ("hardened-range", [str(s), str(s + rnd.randrange(1, 4))])
    if r < 0.84:
        s = rnd.randrange(1, 1000)
        return ("start>end", [str(s), str(s - rnd.randrange(1, 5))])
    if r < 0.87:
        e = H - rnd.randrange(0, 3)
        return ("start>end-straddle", [str(H + rnd.randrange(1, 4)), str(e)])
    if r < 0.93:
        return ("junk", [rnd.choice(["a", "1.0", "", "0x5", "None"]), "3"])
    return ("lenient", [rnd.choice(["+1", " 2", "0_0"]), "3"])


def gen_source(rnd, cmd):
    """Returns (fault tag, cmd_args, source dict)."""
    if cmd == "new":
        args, src = [], {"mnemonic_len": 24, "password": ""}
        fault = "valid"
        r = rnd.random()
        if r < 0.6:
            L = rnd.choice([12, 15, 18, 21, 24])
            args += ["--mnemonic-len", str(L)]
            src["mnemonic_len"] = L
        elif r < 0.75:
            args += ["--mnemonic-len", rnd.choice(["11", "13", "25", "0", "-12", "abc", "12.0", "48"])]
            fault = "bad-mnemonic-len"
        if rnd.random() < 0.4:
            pw = rnd.choice(["pw", "correct horse", "pässwörd", "--testnet", "", " sp "])
            args += ["--password=" + pw] if pw.startswith("-") else ["--password", pw]
            src["password"] = pw
        return fault, args, src
    if cmd == "from-mnemonic":
        r = rnd.random()
        ent = gen.rbytes(rnd, rnd.choice([16, 20, 24, 28, 32]))
        mn = rb39.mnemonic(ent)
        fault = "valid"
        if r < 0.5:
            pass
        elif r < 0.6:
            n = rnd.choice([11, 13, 14, 16, 23, 25, 1, 0])
            mn = " ".join(rnd.choice(rb39.WORDS) for _ in range(n))
            fault = "bad-word-count"
        elif r < 0.7:
            mn = mn.replace(" ", "  ", 1)                   # double space: split(" ") sees an empty token
            fault = "double-space"
        elif r < 0.78:
            mn = " " + mn if rnd.random() < 0.5 else mn + " "
            fault = "edge-space"
        elif r < 0.86:
            w = mn.split(" ")
            w[rnd.randrange(len(w))] = rnd.choice(["zzzz", "ABANDON", "abandon"])
            mn = " ".join(w)
            fault = "bad-word-or-checksum"     # BIP39 seed derivation does not validate words: the API accepts it too
        elif r < 0.93:
            mn = mn.replace(" ", "\t")
            fault = "tabs"
        else:
            mn = "　".join(mn.split(" "))
            fault = "ideographic-space"
        args = [mn]
        src = {"mnemonic": mn, "password": ""}
        if rnd.random() < 0.4:
            pw = rnd.choice(["TREZOR", "pässwörd ✓", "a b c", "", " lead", "trail ", " ", "\ttab"])
            args += ["--password", pw]
            src["password"] = pw
        return fault, args, src
    if cmd == "from-bip39-seed":
        r = rnd.random()
        hx = gen.rbytes(rnd, 64).hex()
        fault = "valid"
        if r < 0.5:
            if rnd.random() < 0.3:
                hx = hx.upper()
        elif r < 0.65:
            hx = gen.rbytes(rnd, rnd.choice([0, 1, 16, 32, 63, 65, 128])).hex()
            fault = "bad-length"
        elif r < 0.75:
            hx = hx[:-1]
            fault = "odd-length"
        elif r < 0.85:
            hx = "zz" + hx[2:]
            fault = "non-hex-128"
        elif r < 0.93:
            hx = hx[:126].replace(hx[10], " ", 1) + "  " if False else " " + hx[:126] + " "
            fault = "whitespace-128"
        else:
            hx = "0x" + hx[:126]
            fault = "0x-128"
        return fault, [hx], {"hex": hx}
    if cmd == "from-entropy-hex":
        r = rnd.random()
        size = rnd.choice([16, 20, 24, 28, 32])
        hx = gen.rbytes(rnd, size).hex()
        fault = "valid"
        if r < 0.5:
            pass
        elif r < 0.65:
            hx = gen.rbytes(rnd, rnd.choice([0, 1, 8, 15, 17, 31, 33, 64])).hex()
            fault = "bad-length"
        elif r < 0.75:
            hx = "g" + hx[1:]
            fault = "non-hex"
        elif r < 0.85:
            hx = hx[:-2] + "  "
            fault = "whitespace-same-length"
        elif r < 0.93:
            hx = " ".join(hx[i:i + 2] for i in range(0, len(hx), 2))[: len(hx)]
            fault = "spaced-same-length"
        else:
            hx = "0x" + hx[:-2]
            fault = "0x-same-length"
        args = [hx]
        src = {"hex": hx, "password": ""}
        if rnd.random() < 0.3:
            pw = rnd.choice(["pw", "ｆｕｌｌ", "", " x ", "Å"])
            args += ["--password", pw]
            src["password"] = pw
        return fault, args, src
    # from-master-xprv
    r = rnd.random()
    m = rb32.master(gen.rbytes(rnd, 32))
    vers = sorted(rb32.SLIP132_INV)
    fault = "valid"
    if r < 0.35:
        key = m.xprv(rnd.choice([v for v in vers if rb32.SLIP132_INV[v][0] == "prv"]))
        fault = "valid"
    elif r < 0.45:
        key = m.xpub(rnd.choice([v for v in vers if rb32.SLIP132_INV[v][0] == "pub"]))
        fault = "public-key"
    elif r < 0.55:
        node = rb32.derive(m, [rnd.randrange(0, 2 * H) for _ in range(rnd.randrange(1, 4))])
        key = node.xprv(rnd.choice([0x0488ADE4, 0x04358394]))
        fault = "non-master-depth"
    elif r < 0.65:
        key = m.xprv(0x0488ADE4)
        i = rnd.randrange(4, 111)
        key = key[:i] + rnd.choice(rb32_alpha(key[i])) + key[i + 1:]
        fault = "bad-checksum"
    elif r < 0.75:
        key = m.xprv(0x0488ADE4)[:rnd.choice([110, 100, 50, 0])]
        fault = "short"
    elif r < 0.83:
        key = m.xprv(0x0488ADE4) + rnd.choice(["1", "a", "zz"])
        fault = "long"
    elif r < 0.92:
        from ..ref import base58 as rb58
        key = rb58.encode_check(m.payload(rnd.choice([0x0488ADE5, 0x04000000, 0x0488B21F]), True))
        fault = "unknown-version"
    else:
        from ..ref import base58 as rb58
        bad = rb32.XKey(1, None, m.c)
        payload = bytearray(bad.payload(0x0488ADE4, True))
        payload[46:78] = (0).to_bytes(32, "big") if rnd.random() < 0.5 else rb32.secp.N.to_bytes(32, "big")
        key = rb58.encode_check(bytes(payload))
        fault = "scalar-out-of-range"
    return fault, [key], {"key": key}


def rb32_alpha(ch):
    from ..ref import base58 as rb58
    return [c for c in rb58.ALPHABET if c != ch]


CMDS = ["new", "from-master-xprv", "from-mnemonic", "from-bip39-seed", "from-entropy-hex"]


def gen_case(rnd, j):
    cmd = CMDS[j % 5]
    clean = rnd.random() < 0.4            # a fully valid argv (exit 0 expected): every clause of the exit-0 branch gets exercised
    for _ in range(50):
        fault, args, src = gen_source(rnd, cmd)
        if not clean or fault == "valid":
            break
    case = {"cmd": cmd, "cmd_args": args, "source": src, "fault": fault, "testnet": rnd.random() < 0.4, "paranoia": rnd.random() < 0.4,
            "file": {"kind": rnd.choice(["none", "none", "new", "new-in-subdir", "new-absolute", "dangling-symlink", "new-on-other-filesystem", "new-on-other-filesystem-absolute", "odd-name-dash"] if clean else FILE_KINDS),
                     "flag": rnd.choice(["-f", "--file"])}}
    if rnd.random() < 0.6:
        atag, a = rnd.choice([x for x in ACCOUNTS if x[0] in ("valid", "lenient")] if clean else ACCOUNTS)
        case["account_s"] = a
        if atag not in ("valid",):
            case["fault"] += "+account-" + atag
    if rnd.random() < 0.65 or clean:
        while True:
            itag, iv = gen_interval(rnd)
            if not clean or itag.startswith("valid") or itag == "lenient":
                break
        case["interval_s"] = iv
        if not itag.startswith("valid"):
            case["fault"] += "+interval-" + itag
    elif rnd.random() < 0.85:
        case["interval_s"] = ["0", str(rnd.randrange(0, 3))]      # (default interval [0,20] = 60 rows: kept rare for cost)
    if clean and rnd.random() < 0.03:
        case.pop("interval_s", None)                              # the default interval, occasionally
    r = rnd.random()
    if clean:
        pass
    elif r < 0.05:
        case["cmd"] = None
        case["fault"] = "missing-command"
    elif r < 0.09:
        case["trailing"] = [rnd.choice(["--testnet", "--paranoia", "extra", "-f", "--account"])]
        case["fault"] += "+trailing-arg"
    elif r < 0.13:
        case["extra_global"] = [[rnd.choice(["--bogus", "-x", "--interval", "--account"])]]
        case["fault"] += "+bad-global-option"
    if rnd.random() < 0.08 and case.get("account_s") is not None and denote_int(case["account_s"]) is not None:
        # duplicated options: the last occurrence wins
        case["extra_global"] = case.get("extra_global", []) + [["--account", "2"], ["--testnet"]]
        case["account_s_first"] = case["account_s"]
        case["dup"] = True
    if rnd.random() < 0.3:
        case["order"] = rnd.sample(range(5), 5)
    return case


def run(ctx):
    rnd = ctx.rnd
    inst = install_probes()
    try:
        for j0 in range(ctx.scale(640, 40000)):
            judge_run(ctx, gen_case(rnd, j0 * ctx.nshards + ctx.shard), "inproc")
        for j0 in range(ctx.scale(64, 6000)):
            j = j0 * ctx.nshards + ctx.shard
            judge_run(ctx, gen_case(rnd, j), "strace" if j0 % 8 == 0 else "subprocess")
        # fixed regression shapes (both runners): the interval that used to yield hardened address rows, help path, no args
        fixed = [
            {"cmd": "from-bip39-seed", "cmd_args": ["11" * 64], "source": {"hex": "11" * 64}, "interval_s": [str(H + 2), str(H)], "file": {"kind": "none"}, "fault": "interval-reversed-straddle"},
            {"cmd": "from-bip39-seed", "cmd_args": ["11" * 64], "source": {"hex": "11" * 64}, "interval_s": [str(H + 1), str(H - 1)], "file": {"kind": "new"}, "paranoia": True, "fault": "interval-reversed-straddle"},
            {"cmd": "from-bip39-seed", "cmd_args": ["11" * 64], "source": {"hex": "11" * 64}, "interval_s": ["5", "2"], "file": {"kind": "none"}, "fault": "interval-reversed"},
            {"cmd": "from-bip39-seed", "cmd_args": ["00" * 64], "source": {"hex": "00" * 64}, "interval_s": [str(H), str(H + 2)], "file": {"kind": "none"}, "fault": "interval-hardened"},
            {"cmd": "from-bip39-seed", "cmd_args": ["00" * 64], "source": {"hex": "00" * 64}, "interval_s": [str(H - 1), str(H + 1)], "file": {"kind": "new"}, "fault": "interval-straddles"},
            {"cmd": "from-bip39-seed", "cmd_args": ["00" * 64], "source": {"hex": "00" * 64}, "interval_s": [str(H - 1), str(H)], "file": {"kind": "new"}, "fault": "valid"},
            {"cmd": None, "file": {"kind": "none"}, "fault": "no-arguments"},
            {"cmd": None, "extra_global": [["--help"]], "file": {"kind": "none"}, "fault": "help"},
            {"cmd": "new", "cmd_args": ["--help"], "source": {}, "file": {"kind": "new"}, "fault": "subcommand-help"},
        ]
        for k, c in enumerate(fixed):
            if ctx.mine(k):
                judge_run(ctx, c, "inproc")
                judge_run(ctx, c, "subprocess")
    finally:
        inst.remove()
    # listings far longer than a run can afford to derive: what the command line hands to the API for intervals of K-1 .. 2K+1
    # rows, K every threshold written down in the code under test (vpkg.harvest / vpkg.longrun), and of 2^31 rows
    from .. import longrun
    lens = [n for _, n in longrun.lengths(ctx, wide=True)] + [H - 1, H]
    for j, n in enumerate(lens):
        if ctx.mine(j):
            for s in {0, 5, H - n}:
                if 0 <= s and s + n <= H:
                    judge_cli_request(ctx, {"seed": gen.rbytes(rnd, 64), "testnet": bool(j & 1), "account": rnd.choice([0, 3]), "start": s, "n": n,
                                            "paranoia": rnd.random() < 0.3})
    ctx.extra["harvested_thresholds"] = longrun.thresholds()


def judge_cli_request(ctx, case):
    """An accepted argument vector must give what PaperWallet.generate(account, interval) gives for the SAME interval.  For
    intervals no run can afford to derive, the request the command line hands to the API is observed instead (a recorder
    around the real PaperWallet.generate, which then serves a one-row listing): exactly one request, for exactly the account
    and interval on the command line.  A differing request is CONFIRMED end to end before it counts (the command and the API
    run in full in fast mode, inject.FastEC, and their JSON is compared); runs in which the command line does not use
    PaperWallet.generate exactly once are not judged by this monitor."""
    from btc_hd_wallet.paper_wallet import PaperWallet
    import btc_hd_wallet.bip32 as b32
    s, n, acct, tn = case["start"], case["n"], case["account"], case["testnet"]
    argv = ["--interval", str(s), str(s + n), "--account", str(acct)] + (["--testnet"] if tn else []) + (["--paranoia"] if case.get("paranoia") else []) + \
           ["from-bip39-seed", case["seed"].hex()]
    calls = []
    orig = PaperWallet.__dict__["generate"]

    def recorder(self, *a, **kw):
        account = kw.get("account", a[0] if a else 0)
        interval = kw.get("interval", a[1] if len(a) > 1 else (0, 20))
        calls.append((account, tuple(interval) if isinstance(interval, (list, tuple)) else interval))
        return orig(self, account=account, interval=(s, s + 1))
    d = tempfile.mkdtemp(prefix="vp-c20r-")
    try:
        PaperWallet.generate = recorder
        try:
            res = run_inproc(argv, d, {})
        finally:
            PaperWallet.generate = orig
        ctx.reach("inproc")
        cls = "request|n%d|s%s|%s" % (n, "0" if s == 0 else ("top" if s + n == H else "mid"), "paranoia" if case.get("paranoia") else "full")
        if res["rc"] != 0:
            return ctx.judge("cli_request", False, dict(case, argv=argv), "exit 0", {"rc": res["rc"], "stderr": res["stderr"][-200:]}, cls=cls,
                             mech="C20.request.legal_interval_refused")
        if len(calls) != 1:
            ctx.extra["cli_request_runs_not_judged"] = ctx.extra.get("cli_request_runs_not_judged", 0) + 1
            return None
        want = (acct, (s, s + n))
        if calls[0] == want:
            return ctx.judge("cli_request", True, dict(case, argv=argv), want, calls[0], cls=cls)
        # confirm end to end (fast mode; only worth it when affordable)
        if not longrun.affordable(ctx, "wallet", 6 * n, budget_quick=600.0, budget_thorough=3000.0):
            ctx.extra["cli_request_mismatch_not_confirmable"] = ctx.extra.get("cli_request_mismatch_not_confirmable", 0) + 1
            return None
        from .. import inject
        with inject.FastEC([b32], variety=61):
            res2 = run_inproc(argv, d, {})
            api = PaperWallet.from_bip39_seed_hex(bip39_seed=case["seed"].hex(), testnet=tn).generate(account=acct, interval=(s, s + n))
        want_json = json.loads(json.dumps(api))
        if case.get("paranoia"):
            want_json = rpaper.paranoia(want_json)
        try:
            got = json.loads(res2["stdout"])
        except ValueError:
            got = None
        same = res2["rc"] == 0 and got == want_json
        rows = {k: len(v.get("groups", [])) for k, v in (got or {}).items() if isinstance(v, dict) and "groups" in v}
        return ctx.judge("cli_request", same, dict(case, argv=argv), {"request": want, "rows_per_section": n},
                         {"request": calls[0], "rc": res2["rc"], "rows_per_section": rows}, cls=cls, mech="C20.request.differs_from_command_line")
    finally:
        shutil.rmtree(d, ignore_errors=True)


def replay(ctx, monitor, case):
    if monitor == "cli_request":
        case.pop("argv", None)
        return judge_cli_request(ctx, case)
    inst = install_probes()
    try:
        mode = case.pop("mode", "inproc")
        case.pop("argv", None)
        judge_run(ctx, case, mode)
    finally:
        inst.remove()
