"""C06 - paper-wallet records are mutually consistent and follow BIP44/49/84."""
import json

from .. import gen
from ..hostile import scribble
from ..ref import bip32 as rb32, bip39 as rb39, paper as rpaper, base58 as rb58, addr as raddr, secp, path as rpath

PROP = "C06"
LEVEL = "exploration"
SHARDS = {"quick": 8, "thorough": 16}
TIMEOUT = {"quick": 900, "thorough": 7200}
THOROUGH_MULT = 2   # thorough budgets below are multiplied by this (sized for roughly five minutes on 16 cores)
REQUIRED = {"generate": 40, "rows_decoded": 40, "json_roundtrip": 40, "wasabi": 40, "sequence": 100, "long_listing": 8, "export_files": 16}
ANCHORS = ['paper_wallet:PaperWallet.generate', 'paper_wallet:PaperWallet.json', 'paper_wallet:PaperWallet.wasabi_json', 'paper_wallet:PaperWallet.group', 'paper_wallet:PaperWallet.master_data']
RULE = ("wallets from random secrets through all constructors x both networks x accounts {0,1,2^31-2,2^31-1,random} x "
        "intervals {(0,0),(0,1),(7,8),(s,s+r),(2^31-3,2^31-1),(2^31-1,2^31)} inside [0,2^31), 0..40 rows; everything recomputed "
        "from the seed by the reference model; distinct = distinct (monitor, case) digests; a wallet is non-trivial when it "
        "has >=1 row or a non-zero account"
        " EXTENSIONS: + listings of 255..1025 and 4097 rows (thorough 16385) with real keys, one listing of 2^15+600 rows in fast mode (thorough 2^17+600), results re-read after later requests and after the caller edited them, export_wallet / export_wasabi onto one path repeatedly, accounts equal to meaningful numbers, wallet listings of K+3 rows (thorough K-1 .. 2K+1) per harvested threshold K and purpose with rows around multiples of K decoded, capitalised spellings of the mnemonic, a command-line route compared with the reference wallet of the text as typed, passphrases equal to strings the same document prints elsewhere (row paths, field names) or to JSON syntax")
LEVEL_TEXT = ("The dict returned by PaperWallet.generate(account, interval), the json() string and wasabi_json() of real "
              "wallets are checked by an offline checker against the reference model recomputed from the seed: account paths "
              "and SLIP-132 keys per purpose, one row per index in order, WIF/SEC/address of each row independently decoded, "
              "MASTER echo, JSON round-trip, Wasabi ExtPubKey + master fingerprint. Held on K wallets.")
LEVEL_NOTE = "Trusted: reference model. BIP85 block contents are C12's; here only its presence is required."
TECHNIQUE = "offline structural checker over real generate()/json()/wasabi_json() outputs vs reference recomputation from the seed"
ASSUMPTIONS = ["ecdsa fallback backend"]
H = 1 << 31


def build_wallet(case):
    """Returns (wallet, ref master XKey, mnemonic, password, testnet)."""
    from btc_hd_wallet.paper_wallet import PaperWallet
    route, tn = case["route"], case["testnet"]
    p = case.get("passphrase", "")
    if route in ("from_mnemonic", "from_entropy_hex"):
        ent = case["entropy"]
        mn = respell(rb39.mnemonic(ent), case.get("spelling")) if route == "from_mnemonic" else rb39.mnemonic(ent)
        seed = rb39.seed(mn, p)
        m = rb32.master(seed)
        if route == "from_mnemonic":
            w = PaperWallet.from_mnemonic(mnemonic=mn, password=p, testnet=tn)
        else:
            w = PaperWallet.from_entropy_hex(entropy_hex=ent.hex(), password=p, testnet=tn)
        return w, m, mn, p, tn
    seed = case["seed"]
    m = rb32.master(seed)
    if route == "from_bip39_seed_bytes":
        w = PaperWallet.from_bip39_seed_bytes(bip39_seed=seed, testnet=tn)
    elif route == "from_bip39_seed_hex":
        w = PaperWallet.from_bip39_seed_hex(bip39_seed=seed.hex(), testnet=tn)
    else:
        w = PaperWallet.from_extended_key(extended_key=m.xprv(rb32.version_for("prv", tn, case.get("purpose", 44))))
    return w, m, None, None, tn


def respell(mn, how):
    """BIP39 takes the sentence AS TYPED (NFKD only): capitals are part of it."""
    if how == "upper":
        return mn.upper()
    if how == "capitalised":
        return " ".join(w_.capitalize() for w_ in mn.split(" "))
    if how == "one-upper":
        ws = mn.split(" ")
        ws[len(ws) // 2] = ws[len(ws) // 2].upper()
        return " ".join(ws)
    return mn


def judge_cli_wallet(ctx, case):
    """The same records through the command line (python -m btc_hd_wallet, in-process): what it prints for a mnemonic /
    entropy / passphrase as typed is the wallet of exactly that text."""
    import shutil
    import tempfile
    from .c20 import run_inproc
    tn, p = case["testnet"], case.get("passphrase", "")
    acct, s, e = case["account"] % H, case["start"], case["end"]
    ent = case["entropy"]
    if case["route"] == "from_mnemonic":
        mn = respell(rb39.mnemonic(ent), case.get("spelling"))
        argv = ["from-mnemonic", mn]
    else:
        mn = rb39.mnemonic(ent)
        argv = ["from-entropy-hex", ent.hex().upper() if case.get("spelling") == "upper" else ent.hex()]
    argv = ["--account", str(acct), "--interval", str(s), str(e)] + (["--testnet"] if tn else []) + argv + (["--password", p] if p else [])
    m = rb32.master(rb39.seed(mn, p))
    d = tempfile.mkdtemp(prefix="vp-c06cli-")
    try:
        res = run_inproc(argv, d, {})
    finally:
        shutil.rmtree(d, ignore_errors=True)
    cls = "cli|%s|%s|%s" % (case["route"], case.get("spelling") or "plain", "test" if tn else "main")
    if res["rc"] != 0:
        # (refusing a spelling is the command line's business; C20 judges refusals)
        ctx.extra["cli_refusals_not_judged"] = ctx.extra.get("cli_refusals_not_judged", 0) + 1
        return None
    try:
        got = json.loads(res["stdout"])
    except ValueError as ex:
        return ctx.judge("generate", False, dict(case, argv=argv), "JSON", str(ex), cls=cls, mech="C06.cli.notjson")
    exp = json.loads(json.dumps(rpaper.generate(m, tn, acct, s, e, mn, p, with_bip85=False)))
    dd = rpaper.diff(exp, {k: v for k, v in got.items() if k != "BIP85"})
    return ctx.judge("generate", not dd, dict(case, argv=argv), None, dd[:3], cls=cls,
                     mech="C06.generate." + (dd[0][0].strip("/").replace("/", ".").rstrip("0123456789.") if dd else ""))


def check_rows(master, testnet, data, account, start, end):
    """Independent decoding of every row (does not use ref.paper)."""
    bad = []
    net = "test" if testnet else "main"
    for purpose in (44, 49, 84):
        blk = data.get("BIP%d" % purpose)
        if not isinstance(blk, dict):
            bad.append(("BIP%d" % purpose, "block", blk))
            continue
        keys = blk["account_extended_keys"]
        want_path = "m/%d'/%d'/%d'" % (purpose, 1 if testnet else 0, account)
        if keys.get("path") != want_path:
            bad.append(("BIP%d/account_path" % purpose, want_path, keys.get("path")))
        acct = rb32.derive(master, [purpose + H, (1 if testnet else 0) + H, account + H])
        for typ in ("pub", "prv"):
            s = keys.get(typ)
            pre = rb32.spelled_prefix(typ, net, purpose)
            if not isinstance(s, str) or not s.startswith(pre):
                bad.append(("BIP%d/%s_prefix" % (purpose, typ), pre, s))
                continue
            try:
                ver, xk, isprv = rb32.parse_xkey(s)
            except Exception as e:  # noqa
                bad.append(("BIP%d/%s_decode" % (purpose, typ), "valid extended key", e))
                continue
            if ver != rb32.SLIP132[(typ, net, purpose)] or isprv != (typ == "prv"):
                bad.append(("BIP%d/%s_version" % (purpose, typ), rb32.SLIP132[(typ, net, purpose)], ver))
            if xk.K != acct.K or xk.c != acct.c or (isprv and xk.k != acct.k) or \
                    (xk.depth, xk.index, xk.pfp) != (acct.depth, acct.index, acct.pfp):
                bad.append(("BIP%d/%s_material" % (purpose, typ), acct.fields(), xk.fields()))
        rows = blk["groups"]
        want_n = len(range(start, end))
        if len(rows) != want_n:
            bad.append(("BIP%d/row_count" % purpose, want_n, len(rows)))
        chain = rb32.ckd_priv(acct, 0)
        for j, row in enumerate(rows[:want_n]):
            idx = start + j
            want_p = "%s/0/%d" % (want_path, idx)
            if len(row) != 4:
                bad.append(("BIP%d/row_shape" % purpose, 4, len(row)))
                continue
            if row[0] != want_p:
                bad.append(("BIP%d/row_path" % purpose, want_p, row[0]))
            node = rb32.ckd_priv(chain, idx)
            kind, payload = rb58.classify_check(row[3]) if isinstance(row[3], str) else ("none", None)
            want_payload = bytes([0xEF if testnet else 0x80]) + rb32.ser256(node.k) + b"\x01"
            if kind != "valid" or payload != want_payload:
                bad.append(("BIP%d/row_wif" % purpose, want_payload, payload if kind == "valid" else kind))
            if row[2] != node.sec().hex():
                bad.append(("BIP%d/row_sec" % purpose, node.sec().hex(), row[2]))
            want_addr = raddr.KINDS[rpaper.ADDR_KIND[purpose]](node.sec(), testnet)
            if row[1] != want_addr:
                bad.append(("BIP%d/row_address" % purpose, want_addr, row[1]))
            if len(bad) > 6:
                return bad
    return bad


def _cls(case):
    a = case["account"]
    s, e = case["start"], case["end"]
    acls = "acct0" if a == 0 else ("acct-max" if a >= H - 2 else "acct-n")
    n = max(0, e - s)
    icls = "empty" if n == 0 else ("single" if n == 1 else "multi")
    if e >= H - 1:
        icls += "-top"
    return "%s|%s|%s|%s|%s" % (case["route"], "test" if case["testnet"] else "main", acls, icls,
                               "pw" if case.get("passphrase") else "nopw")


def judge_wallet(ctx, case):
    acct, s, e = case["account"], case["start"], case["end"]
    try:
        w, m, mn, pw, tn = build_wallet(case)
        data = w.generate(account=acct, interval=(s, e))
    except Exception as ex:  # noqa
        return ctx.judge("generate", False, case, "wallet dict", ex, cls=_cls(case), outcome="raised", mech="C06.generate.raised")
    exp = rpaper.generate(m, tn, acct, s, e, mn, pw, with_bip85=False)
    got = {k: v for k, v in data.items() if k != "BIP85"}
    d = rpaper.diff(exp, got)
    if "BIP85" not in data or not isinstance(data["BIP85"], dict):
        d.append(("/BIP85", "present", "absent"))
    ctx.judge("generate", not d, case, None, d, cls=_cls(case), mech="C06.generate." + (d[0][0].strip("/").replace("/", ".").rstrip("0123456789.") if d else ""))
    bad = check_rows(m, tn, data, acct, s, e)
    ctx.extra["rows_checked"] = ctx.extra.get("rows_checked", 0) + 3 * max(0, e - s)
    if data.get("MASTER") != {"mnemonic": mn, "password": pw}:
        bad.append(("MASTER", {"mnemonic": mn, "password": pw}, data.get("MASTER")))
    ctx.judge("rows_decoded", not bad, case, None, bad, cls=_cls(case), mech="C06.rows." + (bad[0][0].split("/")[-1] if bad else ""))
    # JSON rendering
    jbad = []
    try:
        js = w.json(data=data)
        if json.loads(js) != json.loads(json.dumps(data)):
            jbad.append(("json(data)", "parses back to data", "differs"))
        js4 = w.json(data=data, indent=4)
        if json.loads(js4) != json.loads(js):
            jbad.append(("json(indent)", "same data", "differs"))
        if case.get("default_json"):
            dflt = json.loads(w.json())
            expd = rpaper.generate(m, tn, 0, 0, 20, mn, pw, with_bip85=False)
            dd = rpaper.diff(expd, {k: v for k, v in dflt.items() if k != "BIP85"})
            if dd:
                jbad.append(("json()", "generate() defaults", dd[:2]))
    except Exception as ex:  # noqa
        jbad.append(("json.raised", None, ex))
    ctx.judge("json_roundtrip", not jbad, case, None, jbad, cls="json|" + case["route"], mech="C06.json." + (jbad[0][0] if jbad else ""))
    # Wasabi
    wbad = []
    try:
        wj = json.loads(w.wasabi_json())
        expw = rpaper.wasabi(m, tn)
        for k, v in expw.items():
            if wj.get(k) != v:
                wbad.append((k, v, wj.get(k)))
        if json.loads(w.wasabi_json(indent=2)) != wj:
            wbad.append(("indent", "same", "differs"))
    except Exception as ex:  # noqa
        wbad.append(("wasabi.raised", None, ex))
    ctx.judge("wasabi", not wbad, case, None, wbad, cls="wasabi|" + ("test" if tn else "main"), mech="C06.wasabi." + (wbad[0][0] if wbad else ""))


def judge_sequence(ctx, case):
    """Several generate()/json() requests on the SAME wallet object (overlapping, lower-starting, repeated intervals and
    changing accounts): every answer must still be the one for its own (account, interval)."""
    try:
        w, m, mn, pw, tn = build_wallet(case)
    except Exception as ex:  # noqa
        return ctx.judge("sequence", False, case, "wallet", ex, cls="seq|raised", mech="C06.sequence.raised")
    held = []        # (step, live result object, expectation): results the caller KEEPS must not change under later requests
    for step, (acct, s, e, via) in enumerate(case["steps"]):
        try:
            if via == "json":
                data = json.loads(w.json(data=w.generate(account=acct, interval=(s, e))))
            elif via in ("bip44", "bip49", "bip84"):
                keys, rows = getattr(w, via)(account=acct, interval=(s, e))
                data = {"BIP" + via[3:]: {"account_extended_keys": keys, "groups": rows}}
            else:
                data = w.generate(account=acct, interval=(s, e))
        except Exception as ex:  # noqa
            ctx.judge("sequence", False, dict(case, step=step), "dict", ex, cls="seq|raised", mech="C06.sequence.raised")
            continue
        exp = rpaper.generate(m, tn, acct, s, e, mn, pw, with_bip85=False)
        if via in ("bip44", "bip49", "bip84"):
            exp = {k: v for k, v in exp.items() if k == "BIP" + via[3:]}
        got = {k: v for k, v in json.loads(json.dumps(data)).items() if k != "BIP85"}
        d = rpaper.diff(json.loads(json.dumps(exp)), got)
        ctx.judge("sequence", not d, dict(case, step=step), None, d[:3], cls="seq|step%d|%s" % (min(step, 3), via),
                  mech="C06.sequence." + (d[0][0].strip("/").split("/")[-1] if d else ""))
        ctx.extra["rows_checked"] = ctx.extra.get("rows_checked", 0) + 3 * max(0, e - s)
        if via != "json":
            held.append((step, data, json.loads(json.dumps(exp)), via))
    # 1. every result still held is re-read after all later requests were served
    for step, data, exp, via in held:
        got = {k: v for k, v in json.loads(json.dumps(data)).items() if k != "BIP85"}
        d = rpaper.diff(exp, got)
        ctx.judge("sequence", not d, dict(case, step=step, reread="after later requests"), None, d[:3], cls="seq|reread|%s" % via,
                  mech="C06.sequence.earlier_result_changed")
    # 2. the caller edits a result it was handed (redacts / clears / re-orders it in place), then asks again
    if held and case.get("scribble"):
        import random as _random
        hr = _random.Random(case["scribble"])
        for step, data, exp, via in held:
            scribble(data, hr)
        acct, s, e, via = case["steps"][0]
        try:
            data = w.generate(account=acct, interval=(s, e))
            exp = json.loads(json.dumps(rpaper.generate(m, tn, acct, s, e, mn, pw, with_bip85=False)))
            got = {k: v for k, v in json.loads(json.dumps(data)).items() if k != "BIP85"}
            d = rpaper.diff(exp, got)
            ctx.judge("sequence", not d, dict(case, step=0, reread="after the caller edited earlier results"), None, d[:3],
                      cls="seq|after-scribble", mech="C06.sequence.result_depends_on_caller_edits")
        except Exception as ex:  # noqa
            ctx.judge("sequence", False, dict(case, step=0, reread="after the caller edited earlier results"), "dict", ex,
                      cls="seq|after-scribble|raised", mech="C06.sequence.raised")


def judge_export_files(ctx, case):
    """The file renderings (export_wallet / export_wasabi): whatever the path held before - nothing, a longer document, a
    shorter one - the file afterwards parses back to exactly the data that was exported."""
    import os
    import shutil
    import tempfile
    try:
        w, m, mn, pw, tn = build_wallet(case)
    except Exception as ex:  # noqa
        return ctx.judge("export_files", False, case, "wallet", ex, cls="export|raised", mech="C06.export.raised")
    d = tempfile.mkdtemp(prefix="vp-c06-")
    try:
        path = os.path.join(d, "wallet.json")
        bad = []
        for step, (kind, acct, s, e, indent) in enumerate(case["exports"]):
            try:
                if kind == "wasabi":
                    w.export_wasabi(file_path=path, indent=indent)
                    want = json.loads(w.wasabi_json())
                else:
                    data = w.generate(account=acct, interval=(s, e))
                    w.export_wallet(file_path=path, indent=indent, data=data)
                    want = json.loads(json.dumps(data))
                text = open(path).read()
                try:
                    got = json.loads(text)
                except ValueError as ex:
                    bad.append(("step%d.%s.unparsable" % (step, kind), "JSON document", "%s ... (%d chars)" % (str(ex)[:60], len(text))))
                    break
                if got != want:
                    bad.append(("step%d.%s.differs" % (step, kind), None, None))
                    break
            except Exception as ex:  # noqa
                bad.append(("step%d.%s.raised" % (step, kind), "file", ex))
                break
        return ctx.judge("export_files", not bad, case, "each file parses back to what was exported", bad,
                         cls="export|%s" % ">".join("%s%d" % (k[0], max(0, e_ - s_)) for k, a_, s_, e_, i_ in case["exports"]),
                         mech="C06.export." + (bad[0][0].split(".", 1)[1] if bad else ""))
    finally:
        shutil.rmtree(d, ignore_errors=True)


LONG_SIZES = (255, 256, 257, 300, 500, 501, 512, 513, 640, 1000, 1001, 1024, 1025, 2048, 2049, 4097, 4100, 8193, 16385)


def judge_long_listing(ctx, case):
    """Listings far longer than any default (sizes around 2^8, 500, 2^9, 1000, 2^10 ...): exactly one row per index, in
    order - checked on EVERY row (path text, row shape, address = the purpose's encoding of the row's own SEC key, WIF is a
    well-formed compressed WIF of the right network) - and the full reference derivation on the first/last rows and a
    random sample (a chunked / streamed / batched implementation shows at its seams)."""
    try:
        w, m, mn, pw, tn = build_wallet(case)
    except Exception as ex:  # noqa
        return ctx.judge("long_listing", False, case, "wallet", ex, cls="long|raised", mech="C06.long_listing.raised")
    purpose, acct, s, n = case["purpose_listed"], case["account"], case["start"], case["n"]
    e = s + n
    try:
        if case.get("via") == "generate":
            blk = w.generate(account=acct, interval=(s, e))["BIP%d" % purpose]
            keys, rows = blk["account_extended_keys"], blk["groups"]
        else:
            keys, rows = getattr(w, "bip%d" % purpose)(account=acct, interval=(s, e))
        rows = [list(r) for r in rows]
    except Exception as ex:  # noqa
        return ctx.judge("long_listing", False, case, "%d rows" % n, ex, cls="long|raised", mech="C06.long_listing.raised")
    bad = []
    want_path = "m/%d'/%d'/%d'" % (purpose, 1 if tn else 0, acct)
    if len(rows) != n:
        bad.append(("row_count", n, len(rows)))
    for j, row in enumerate(rows[:n]):
        if len(row) != 4 or row[0] != "%s/0/%d" % (want_path, s + j):
            bad.append(("row_path", "%s/0/%d" % (want_path, s + j), row[0] if row else row))
            break
        try:
            sec = bytes.fromhex(row[2])
            if row[1] != raddr.KINDS[rpaper.ADDR_KIND[purpose]](sec, tn):
                bad.append(("row_address_vs_sec", j, row[1]))
                break
            kind, payload = rb58.classify_check(row[3])
            if kind != "valid" or len(payload) != 34 or payload[0] != (0xEF if tn else 0x80) or payload[-1] != 1:
                bad.append(("row_wif_shape", j, row[3]))
                break
        except Exception as ex:  # noqa
            bad.append(("row_malformed", j, ex))
            break
    if not bad:
        acct_node = rb32.derive(m, [purpose + H, (1 if tn else 0) + H, acct + H])
        chain = rb32.ckd_priv(acct_node, 0)
        rs = sorted(set([0, 1, 2, n - 1, n - 2, n // 2] + [case["sample_seed"] * (k + 1) * 7919 % n for k in range(8)]))
        for j in rs:
            if not 0 <= j < len(rows):
                continue
            node = rb32.ckd_priv(chain, s + j)
            kind, payload = rb58.classify_check(rows[j][3])
            if rows[j][2] != node.sec().hex() or payload != bytes([0xEF if tn else 0x80]) + rb32.ser256(node.k) + b"\x01":
                bad.append(("row_key", (s + j, node.sec().hex()), rows[j][2]))
                break
    ctx.extra["rows_checked"] = ctx.extra.get("rows_checked", 0) + len(rows)
    return ctx.judge("long_listing", not bad, case, None, bad[:3], cls="long|n%d|bip%d|%s|%s" % (n, purpose, case.get("via", "bip"), "test" if tn else "main"),
                     mech="C06.long_listing." + (bad[0][0] if bad else ""))


def huge_listing_rows(case):
    """One listing of case['n'] rows (2^15+ .. 2^17+) made in fast mode (inject.FastEC: 61 PRF outputs chosen by the child
    number, memoised ecdsa - neighbouring rows carry different keys, and path, position, count, network tags and row shape are
    the real code's).  Returns (wallet, testnet, keys, rows)."""
    from .. import inject
    import btc_hd_wallet.bip32 as b32
    w, m, mn, pw, tn = build_wallet(case)
    with inject.FastEC([b32], variety=61):
        keys, rows = getattr(w, "bip%d" % case["purpose_listed"])(account=case["account"], interval=(case["start"], case["start"] + case["n"]))
        rows = [list(r) for r in rows]
    return w, tn, keys, rows


def judge_huge_listing(ctx, case):
    try:
        w, tn, keys, rows = huge_listing_rows(case)
    except Exception as ex:  # noqa
        return ctx.judge("long_listing", False, case, "%d rows" % case["n"], ex, cls="huge|raised", mech="C06.long_listing.raised")
    purpose, acct, s, n = case["purpose_listed"], case["account"], case["start"], case["n"]
    want_path = "m/%d'/%d'/%d'" % (purpose, 1 if tn else 0, acct)
    bad = []
    kk, wif_ok = case.get("k", 0), {}
    if len(rows) != n:
        bad.append(("row_count", n, len(rows)))
    for j, row in enumerate(rows[:n]):
        if len(row) != 4 or row[0] != "%s/0/%d" % (want_path, s + j):
            bad.append(("row_path", "%s/0/%d" % (want_path, s + j), row[0] if row else row))
            break
        if j % 257 == 0 or j > n - 3 or (kk and (j % kk) in (0, 1, 2, kk - 1, kk - 2)):
            try:
                if row[1] != raddr.KINDS[rpaper.ADDR_KIND[purpose]](bytes.fromhex(row[2]), tn):
                    bad.append(("row_address_vs_sec", j, row[1]))
                    break
                if row[3] not in wif_ok:
                    c = raddr.classify_string(row[3])
                    wif_ok[row[3]] = (c["class"] == "wif" and bool(c["testnet"]) == bool(tn) and c.get("compressed", True)
                                      and secp.ser(secp.gmul(c["k"])).hex() == row[2])
                if not wif_ok[row[3]]:
                    bad.append(("row_wif_vs_sec", j, row[3][:8]))
                    break
            except Exception as ex:  # noqa
                bad.append(("row_malformed", j, ex))
                break
    ctx.extra["rows_checked"] = ctx.extra.get("rows_checked", 0) + len(rows)
    return ctx.judge("long_listing", not bad, case, None, bad[:3], cls="huge|n%d|bip%d|%s|fast" % (n, purpose, "test" if tn else "main"),
                     mech="C06.long_listing." + (bad[0][0] if bad else ""))


def gen_sequence(rnd, j):
    case = gen_case(rnd, j)
    base = rnd.choice([0, 0, 3, 1000, H - 12])
    acct = case["account"]
    steps = []
    for k in range(rnd.randrange(2, 5)):
        r = rnd.random()
        if r < 0.35:
            s = base + rnd.randrange(3, 7)
            e = s + rnd.randrange(1, 4)
        elif r < 0.7:
            s = base + rnd.randrange(0, 3)         # starts below what was derived before, overlaps it
            e = s + rnd.randrange(2, 9)
        elif r < 0.85:
            s = e = base + rnd.randrange(0, 5)     # empty
        else:
            s, e = base, base + 2
        a = acct if rnd.random() < 0.8 else (acct + 1) % H
        steps.append((a, s, min(e, H), rnd.choice(["generate", "generate", "json", "bip44", "bip49", "bip84"])))
    case["steps"] = steps
    case["scribble"] = rnd.randrange(1, 1 << 30) if rnd.random() < 0.5 else 0
    return case


def gen_case(rnd, j):
    route = ["from_mnemonic", "from_entropy_hex", "from_bip39_seed_bytes", "from_bip39_seed_hex", "from_extended_key"][j % 5]
    case = {"route": route, "testnet": bool((j // 5) & 1)}
    if route in ("from_mnemonic", "from_entropy_hex"):
        case["entropy"] = gen.rbytes(rnd, rnd.choice([16, 20, 24, 28, 32]))
        case["passphrase"] = rnd.choice(["", "", "correct horse battery staple", "pässwörd ✓", "UPPER lower MiXeD"])
        case["spelling"] = rnd.choice([None, None, "upper", "capitalised", "one-upper"])
    else:
        case["seed"] = gen.rbytes(rnd, rnd.choice([16, 32, 64, 64]))
        case["purpose"] = rnd.choice([44, 49, 84])
    r = rnd.random()
    case["account"] = gen.account(rnd)
    r = rnd.random()
    if r < 0.1:
        s, e = 0, 0
    elif r < 0.2:
        s, e = 0, 1
    elif r < 0.3:
        s, e = 7, 8
    elif r < 0.4:
        s, e = H - 3, H - 1
    elif r < 0.5:
        s, e = H - 1, H
    elif r < 0.55:
        s = rnd.randrange(0, H)
        e = s - rnd.randrange(0, 5)     # start >= end -> empty
    elif r < 0.65:
        s, e = 0, 20
    else:
        n = rnd.randrange(1, 41 if r > 0.9 else 9)
        s = rnd.randrange(0, H - n)
        e = s + n
    case["start"], case["end"] = s, e
    case["default_json"] = rnd.random() < 0.08
    if "passphrase" in case and rnd.random() < 0.3:
        # a passphrase that EQUALS a string the same document holds elsewhere (a row's derivation path, an account path, a
        # section or field name) or that is JSON syntax itself: renderings must keep the two apart
        coin = 1 if case["testnet"] else 0
        acct = case["account"] % H
        own = ["m/%d'/%d'/%d'/0/%d" % (p_, coin, acct, s) for p_ in (44, 49, 84)] + ["m/%d'/%d'/%d'" % (p_, coin, acct) for p_ in (44, 49, 84)]
        case["passphrase"] = rnd.choice(own + ["BIP84", "groups", "MASTER", "mnemonic", '"', '\\', '{"a": 1}', "null", "m", "[]", '", "'])
    return case


def run(ctx):
    rnd = ctx.rnd
    total = ctx.scale(160, 5000)
    for j in range(total):
        judge_wallet(ctx, gen_case(rnd, j + ctx.shard * 7))
    for j in range(ctx.scale(64, 3000)):
        case = gen_case(rnd, (j % 2) + 5 * (j // 2 + ctx.shard))          # (routes from_mnemonic / from_entropy_hex)
        if case["end"] - case["start"] > 4:
            case["end"] = case["start"] + 2
        judge_cli_wallet(ctx, case)
    for j in range(ctx.scale(96, 4000)):
        judge_sequence(ctx, gen_sequence(rnd, j + ctx.shard * 3))
    for j in range(ctx.scale(24, 1200)):
        case = gen_case(rnd, j)
        acct = case["account"]
        exports = []
        for _k in range(rnd.randrange(2, 5)):
            if rnd.random() < 0.3:
                exports.append(("wasabi", 0, 0, 0, rnd.choice([None, 4])))
            else:
                s0 = rnd.choice([0, 0, 5, H - 9])
                exports.append(("wallet", acct, s0, s0 + rnd.choice([0, 1, 2, 8, 20]), rnd.choice([None, None, 2, 4])))
        case["exports"] = exports
        judge_export_files(ctx, case)
    # long listings: quick = the sizes up to 1025 spread over the shards (two per shard), thorough = all sizes x purposes
    # (quick: everything up to 1025 rows plus ONE listing just beyond 4096 rows, ~25 s in one shard)
    sizes = [z for z in LONG_SIZES if z <= 1025] + [4097 + (ctx.seed % 2) * 3] if not ctx.thorough else list(LONG_SIZES) * 2
    for zi, z in enumerate(sizes):
        if not ctx.mine_once(zi):
            continue
        case = gen_case(rnd, zi)
        case.update({"purpose_listed": (44, 49, 84)[(zi + ctx.seed) % 3], "n": z, "start": rnd.choice([0, 0, 7, rnd.randrange(0, H - z)]),
                     "via": "generate" if zi % 4 == 3 else "bip", "sample_seed": rnd.randrange(1, 1 << 20)})
        case["account"] = rnd.choice([0, 0, 3, H - 1])
        case.pop("end", None)
        judge_long_listing(ctx, case)
    # one listing far beyond every batch size one would pick (2^15 + 600 rows; thorough: 2^16 + 600 and 2^17 + 600), fast mode
    huge = [(1 << 15) + 600] if not ctx.thorough else [(1 << 15) + 600, (1 << 16) + 600, (1 << 17) + 600]
    for hi, z in enumerate(huge):
        if ctx.mine_once(hi + 5):
            case = gen_case(rnd, 2 + hi)          # (a seed-based route)
            case.update({"purpose_listed": (84, 49, 44)[(hi + ctx.seed) % 3], "n": z, "start": rnd.choice([0, 7]), "account": rnd.choice([0, 3])})
            case.pop("end", None)
            judge_huge_listing(ctx, case)
    # one wallet listing of K+3 rows (thorough: K-1 .. 2K+1) for every threshold K written down in the code under test
    # (vpkg.harvest / vpkg.longrun), each of the three purposes in a different shard
    from .. import longrun
    job = 0
    for k, z in longrun.lengths(ctx, wide=ctx.thorough):
        if z <= 4100:
            continue
        for purpose in (44, 49, 84):
            job += 1
            if not ctx.mine_once(job) or not longrun.affordable(ctx, "wallet", z, budget_quick=45.0, k=k):
                continue
            case = gen_case(rnd, 2 + job)
            case.update({"purpose_listed": purpose, "n": z, "k": k, "start": rnd.choice([0, 7]), "account": rnd.choice([0, 3])})
            case.pop("end", None)
            judge_huge_listing(ctx, case)
    ctx.extra["harvested_thresholds"] = longrun.thresholds()


def replay(ctx, monitor, case):
    if monitor == "generate" and "argv" in case:
        case.pop("argv")
        return judge_cli_wallet(ctx, case)
    if monitor == "export_files":
        case["exports"] = [tuple(x) for x in case["exports"]]
        return judge_export_files(ctx, case)
    if monitor == "long_listing":
        return judge_huge_listing(ctx, case) if case.get("n", 0) > 20000 else judge_long_listing(ctx, case)
    if monitor == "sequence":
        case.pop("step", None)
        case.pop("reread", None)
        case["steps"] = [tuple(x) for x in case["steps"]]
        judge_sequence(ctx, case)
    else:
        judge_wallet(ctx, case)
