"""C15 - paranoia mode output contains no secret and leaves public data unchanged."""
import json
import os
import subprocess
import sys
import tempfile
import shutil

from .. import gen
from ..core import REPO
from ..ref import bip32 as rb32, bip39 as rb39, paper as rpaper, addr as raddr, base58 as rb58
from .c06 import build_wallet
from .c14 import leaves

PROP = "C15"
LEVEL = "exploration"
SHARDS = {"quick": 8, "thorough": 16}
TIMEOUT = {"quick": 900, "thorough": 7200}
THOROUGH_MULT = 2   # thorough budgets below are multiplied by this (sized for roughly five minutes on 16 cores)
REQUIRED = {"no_secret_leaf": 60, "public_unchanged": 60, "cli_paranoia": 12, "channels": 100}
ANCHORS = ["__main__:paranoia_mode", "paper_wallet:PaperWallet.generate"]
RULE = ("wallets from all constructors x both networks x accounts/intervals as C06; passphrases empty or >= 12 chars with a "
        "non-Base58 marker; EVERY string (keys and values) at every nesting depth of paranoia_mode(generate(...)) is tested "
        "against the ground-truth secret set (reference model: mnemonic, passphrase, seed, master/account/row scalars, WIF x4, "
        "xprv x6, all BIP85 outputs) plus every secret-classified leaf of the unfiltered output, by equality, substring, "
        "Base58Check classification and BIP39-run detection; CLI --paranoia runs (stdout and -f file) go through the same "
        "oracle; distinct = distinct (monitor, case) digests"
        " EXTENSIONS: + export faults after validation (trailing slash, dangling symlink, missing directory) with stdout / stderr / files scanned, one in-process CLI run of 2^15+600 rows per block in fast mode, every output channel for every constructor, the filter on generate() results extended to K-1 .. 2K+1 rows per section for every harvested threshold K, export targets on another file system than the temp / working directory, export names that mean something elsewhere ('-', '~'): a refusal or another reading of the name is not judged, a leak is")
LEVEL_TEXT = ("The real filter's output (in-process and through the CLI) is scanned leaf by leaf by an independent secret "
              "classifier fed with ground truth recomputed from the seed, so a leak under a key unknown today, inside a longer "
              "string or at another nesting depth is still seen; the public part must be identical to the unfiltered output.")
LEVEL_NOTE = "Trusted: reference model + classifier. Secrets shorter than 8 characters are only matched by equality (no substring rule)."
TECHNIQUE = "runtime leaf-scanning monitor over real paranoia_mode / CLI output with ground-truth secret set from the reference model"
ASSUMPTIONS = ["ecdsa fallback backend"]
H = 1 << 31


def secret_set(m, tn, mn, pw, seed, account, start, end, unfiltered):
    S = set()
    scal = set()
    if mn:
        S.add(mn)
    if pw:
        S.add(pw)
    if seed:
        S.add(seed.hex())

    def add_node(n):
        scal.add(n.k)
        S.add("%064x" % n.k)
        for c in (True, False):
            for t in (True, False):
                S.add(raddr.wif(n.k, c, t))
        for (typ, net, pp), v in rb32.SLIP132.items():
            if typ == "prv":
                S.add(n.xprv(v))
    add_node(m)
    for p in (44, 49, 84):
        path = rpaper.account_path(p, tn, account)
        n = m
        for i in path:
            n = rb32.ckd_priv(n, i)
            add_node(n)
        ch = rb32.ckd_priv(n, 0)
        add_node(ch)
        for i in range(start, end):
            add_node(rb32.ckd_priv(ch, i))
    try:
        for v in rpaper.bip85_block(m).values():
            S.add(v)
    except rb32.InvalidChild:
        pass
    for leaf in leaves(unfiltered, []):
        c = raddr.classify_string(leaf)
        if c["class"] in ("wif", "xprv", "mnemonic"):
            S.add(leaf)
    S.discard("")
    return S, scal


def scan(filtered, S, scal):
    """Returns list of (rule, leaf) violations."""
    out = []
    longS = [s for s in S if len(s) >= 8]
    for leaf in leaves(filtered, []):
        if leaf in S:
            out.append(("equals_secret", leaf))
            continue
        hit = next((s for s in longS if s in leaf), None)
        if hit is not None:
            out.append(("contains_secret", leaf[:120]))
            continue
        c = raddr.classify_string(leaf)
        if c["class"] == "wif":
            out.append(("decodes_as_wif", leaf))
        elif c["class"] == "xprv":
            out.append(("decodes_as_xprv", leaf))
        elif len(leaf) == 64:
            try:
                if int(leaf, 16) in scal:
                    out.append(("raw_scalar", leaf))
            except ValueError:
                pass
        if raddr.contains_mnemonic_run(leaf):
            out.append(("mnemonic_run", leaf[:120]))
    return out


def public_part(data):
    return rpaper.paranoia(data)


def judge_wallet(ctx, case):
    from btc_hd_wallet.__main__ import paranoia_mode
    acct, s, e = case["account"], case["start"], case["end"]
    w, m, mn, pw, tn = build_wallet(case)
    data = w.generate(account=acct, interval=(s, e))
    snapshot = json.loads(json.dumps(data))
    try:
        filt = paranoia_mode(data=data)
    except Exception as ex:  # noqa
        return ctx.judge("no_secret_leaf", False, case, "dict", ex, cls="raised", mech="C15.paranoia.raised")
    seed = case.get("seed") or rb39.seed(mn, pw)
    S, scal = secret_set(m, tn, mn, pw, seed, acct, s, e, data)
    bad = scan(filt, S, scal)
    cls = "%s|%s|%s|rows%d" % (case["route"], "test" if tn else "main", "pw" if pw else "nopw", min(max(0, e - s), 3))
    ctx.judge("no_secret_leaf", not bad, case, "no secret among %d leaves" % len(leaves(filt, [])), bad[:4], cls=cls,
              mech="C15.leak." + (bad[0][0] if bad else ""))
    ctx.extra["leaves_scanned"] = ctx.extra.get("leaves_scanned", 0) + len(leaves(filt, []))
    ctx.extra["secrets_in_ground_truth"] = ctx.extra.get("secrets_in_ground_truth", 0) + len(S)
    # public part identical to the unfiltered output (and to the reference)
    want = public_part(snapshot)
    d = rpaper.diff(want, json.loads(json.dumps(filt)))
    refwant = public_part(rpaper.generate(m, tn, acct, s, e, mn, pw, with_bip85=False))
    d += rpaper.diff(refwant, json.loads(json.dumps(filt)))
    # the filter must not have mutated its input
    if json.loads(json.dumps(data)) != snapshot:
        d.append(("/input_mutated", "unchanged", "changed"))
    ctx.judge("public_unchanged", not d, case, None, d[:4], cls=cls, mech="C15.public_changed")


def judge_channels(ctx, case):
    """The filtered dict handed to the wallet's own output channels (json, pprint, export_wallet) for wallets from
    EVERY constructor: what comes out must still carry no secret (a channel that 'completes' the data would leak)."""
    import contextlib
    import io
    from btc_hd_wallet.__main__ import paranoia_mode
    acct, s, e = case["account"], case["start"], case["end"]
    w, m, mn, pw, tn = build_wallet(case)
    data = w.generate(account=acct, interval=(s, e))
    filt = paranoia_mode(data=data)
    seed = case.get("seed") or rb39.seed(mn, pw)
    S, scal = secret_set(m, tn, mn, pw, seed, acct, s, e, data)
    want_pub = public_part(json.loads(json.dumps(data)))
    d = tempfile.mkdtemp(prefix="vp-c15ch-")
    try:
        outs = {}
        outs["json"] = w.json(data=filt)
        outs["json-indent"] = w.json(data=filt, indent=2)
        buf = io.StringIO()
        with contextlib.redirect_stdout(buf):
            w.pprint(data=filt)
        outs["pprint"] = buf.getvalue()
        p = os.path.join(d, "w.json")
        w.export_wallet(file_path=p, data=filt)
        outs["export_wallet"] = open(p).read()
    except Exception as ex:  # noqa
        shutil.rmtree(d, ignore_errors=True)
        return ctx.judge("channels", False, case, "text", ex, cls="chan|raised", mech="C15.channels.raised")
    shutil.rmtree(d, ignore_errors=True)
    for name, text in outs.items():
        bad = []
        try:
            obj = json.loads(text)
            bad += scan(obj, S, scal)
            dd = rpaper.diff(want_pub, obj)       # (rows exist here: the all-empty case is the CLI's business, see C20)
            if dd:
                bad.append(("public_changed", dd[0]))
        except ValueError:
            bad.append(("not_json", text[:80]))
        for sec in S:
            if len(sec) >= 8 and sec in text:
                bad.append(("raw_text_contains_secret", sec[:24]))
                break
        ctx.judge("channels", not bad, dict(case, channel=name), "public part only", bad[:3],
                  cls="chan|%s|%s|%s" % (name, case["route"], "test" if tn else "main"), mech="C15.channels." + (bad[0][0] if bad else ""))


def cli_run(args, cwd):
    env = dict(os.environ, PYTHONPATH=os.path.realpath(REPO), PYTHONDONTWRITEBYTECODE="1")
    return subprocess.run([sys.executable] + (["-O"] if sys.flags.optimize else []) + ["-m", "btc_hd_wallet"] + args, cwd=cwd, env=env, capture_output=True, text=True, timeout=300)


def judge_cli(ctx, case):
    ent, pw, tn = case["entropy"], case["passphrase"], case["testnet"]
    mn = rb39.mnemonic(ent)
    seed = rb39.seed(mn, pw)
    m = rb32.master(seed)
    acct, s, e = case["account"], case["start"], case["end"]
    src = case.get("source", "from-mnemonic")
    d = tempfile.mkdtemp(prefix="vp-c15-")
    try:
        args = ["--paranoia", "--account", str(acct), "--interval", str(s), str(e)]
        if tn:
            args.append("--testnet")
        target = otherdir = None
        fault = case.get("file_fault")
        if fault == "trailing-slash":
            # a --file value that passes validation (not a directory, nothing there yet, parent writable) and still cannot be
            # opened for writing: the export fails AFTER the wallet was generated
            args += ["-f", os.path.join(d, "out.json") + "/"]
        elif fault == "dangling-symlink":
            os.symlink(os.path.join(d, "missing-dir", "x.json"), os.path.join(d, "link.json"))
            args += ["-f", os.path.join(d, "link.json")]
        elif fault == "parent-removed":
            args += ["-f", os.path.join(d, "gone", "..", "out.json", "x")]
        elif case["to_file"]:
            target = os.path.join(d, "out.json")
            if case.get("other_fs"):
                # the target lives on ANOTHER file system than the working directory and the system temp directory (a rename /
                # link from either onto it fails with EXDEV): whatever an implementation falls back to must still be filtered
                from .c20 import other_filesystem_dir
                otherdir = other_filesystem_dir()
                if otherdir:
                    target = os.path.join(otherdir, "out.json")
            if case.get("odd_name") and not case.get("other_fs"):
                # a file NAME that means something elsewhere ('-' = standard output by convention, '~', a leading blank): wherever
                # the output ends up - a file of that name or the standard output - it is the filtered one
                target = os.path.join(d, case["odd_name"])
                args += ["-f", case["odd_name"]]
            else:
                args += ["-f", target]
        mn_echo, pw_echo = mn, pw
        if src == "from-mnemonic":
            args += ["from-mnemonic", mn] + (["--password", pw] if pw else [])
        elif src == "from-entropy-hex":
            args += ["from-entropy-hex", ent.hex()] + (["--password", pw] if pw else [])
        elif src == "from-bip39-seed":
            args += ["from-bip39-seed", seed.hex()]
            mn_echo = pw_echo = None
        else:
            args += ["from-master-xprv", m.xprv(rb32.version_for("prv", tn, case.get("purpose", 44)))]
            mn_echo = pw_echo = None
        p = cli_run(args, d)
        if case.get("other_fs") and otherdir and p.returncode != 0:
            fault = "other-filesystem"          # (a failed export is not a leak; what was left behind is looked at below)
        if case.get("odd_name") and not fault and (p.returncode != 0 or (not os.path.isfile(os.path.join(d, case["odd_name"])) and not p.stdout.strip())):
            # the name was refused, or read in a way that put the output somewhere else (a tilde expanded, a blank stripped): the
            # command line's business - only a secret left behind anywhere would count
            fault = "odd-name"
        if fault:
            # however the run ends: nothing secret on stdout / stderr / in any file left behind
            unf = rpaper.generate(m, tn, acct, s, e, mn_echo, pw_echo)
            S, scal = secret_set(m, tn, mn, pw, seed, acct, s, e, unf)
            streams = [("stdout", p.stdout), ("stderr", p.stderr)]
            for root, _dirs, files in list(os.walk(d)) + (list(os.walk(otherdir)) if otherdir else []):
                for fn in files:
                    try:
                        streams.append(("file:" + fn, open(os.path.join(root, fn), errors="replace").read()))
                    except OSError:
                        pass
            bad = []
            for name, text in streams:
                for sec in S:
                    if len(sec) >= 8 and sec in text:
                        bad.append((name + "_contains_secret", sec[:40]))
                        break
            return ctx.judge("cli_paranoia", not bad, case, "no secret anywhere, whatever the exit status", {"rc": p.returncode, "bad": bad[:3]},
                             cls="cli|%s|export-fault-%s|rc%s" % (src, fault, "0" if p.returncode == 0 else "!=0"), mech="C15.cli.secret_after_export_failure")
        if p.returncode != 0:
            return ctx.judge("cli_paranoia", False, case, "exit 0", {"rc": p.returncode, "stderr": p.stderr[-300:]}, cls="cli|failed", mech="C15.cli.failed")
        if target and case.get("odd_name") and not os.path.isfile(target):
            target = None                       # (the name was read as "standard output")
        text = open(target).read() if target else p.stdout
        other = p.stdout if target else ""
        try:
            filt = json.loads(text)
        except ValueError as ex:
            return ctx.judge("cli_paranoia", False, case, "JSON", str(ex), cls="cli|notjson", mech="C15.cli.notjson")
        unf = rpaper.generate(m, tn, acct, s, e, mn_echo, pw_echo)
        S, scal = secret_set(m, tn, mn, pw, seed, acct, s, e, unf)
        bad = scan(filt, S, scal)
        # raw text scan as well (anything printed outside the JSON structure)
        for stream in (text, other, p.stderr):
            for sec in S:
                if len(sec) >= 8 and sec in stream:
                    bad.append(("raw_stream_contains_secret", sec[:40]))
                    break
        dd = rpaper.diff(public_part(unf), filt)
        ok = not bad and not dd
        return ctx.judge("cli_paranoia", ok, case, "public part only", (bad[:3], dd[:3]),
                         cls="cli|%s|%s|%s" % (src, "file" if target else "stdout", "test" if tn else "main"),
                         mech="C15.cli." + (bad[0][0] if bad else "public_changed"))
    finally:
        shutil.rmtree(d, ignore_errors=True)
        if otherdir:
            shutil.rmtree(otherdir, ignore_errors=True)


def judge_cli_huge(ctx, case):
    """The CLI with --paranoia and an interval of 2^15 + 600 rows, run in-process in fast mode (inject.FastEC): every row of
    every block has three columns and no string anywhere decodes to a private-key encoding (whatever batches, streams or
    pages a long listing internally: the filter has to cover all of it)."""
    from .c20 import run_inproc
    from .. import inject
    import btc_hd_wallet.bip32 as b32
    n, tn = case["n"], case["testnet"]
    d = tempfile.mkdtemp(prefix="vp-c15h-")
    try:
        argv = ["--paranoia", "--interval", "0", str(n)] + (["--testnet"] if tn else []) + ["from-bip39-seed", case["seed"].hex()]
        with inject.FastEC([b32]):
            res = run_inproc(argv, d, {})
        if res["rc"] != 0:
            return ctx.judge("cli_paranoia", False, case, "exit 0", {"rc": res["rc"], "stderr": res["stderr"][-300:], "exc": repr(res["exc"])},
                             cls="cli|huge|failed", mech="C15.cli.failed")
        try:
            filt = json.loads(res["stdout"])
        except ValueError as ex:
            return ctx.judge("cli_paranoia", False, case, "JSON", str(ex), cls="cli|huge|notjson", mech="C15.cli.notjson")
        bad = []
        for name, blk in filt.items():
            if name not in ("BIP44", "BIP49", "BIP84"):
                bad.append(("unexpected_block", name))
                continue
            if set(blk.get("account_extended_keys", {})) - {"path", "pub"}:
                bad.append(("account_keys", sorted(blk["account_extended_keys"])))
            rows = blk.get("groups", [])
            if len(rows) != n:
                bad.append(("row_count_%s" % name, n, len(rows)))
            for j, row in enumerate(rows):
                if len(row) != 3:
                    bad.append(("row_columns_%s" % name, j, len(row)))
                    break
        if not bad:
            for leaf in leaves(filt, []):
                c = raddr.classify_string(leaf)
                if c["class"] in ("wif", "xprv"):
                    bad.append(("private_encoding", leaf[:16]))
                    break
        return ctx.judge("cli_paranoia", not bad, case, "3-column rows only, no private encoding", bad[:3],
                         cls="cli|huge|n%d|%s" % (n, "test" if tn else "main"), mech="C15.cli." + (str(bad[0][0]).split("_BIP")[0] if bad else ""))
    finally:
        shutil.rmtree(d, ignore_errors=True)


def gen_case(rnd, j):
    from .c06 import gen_case as g6
    case = g6(rnd, j)
    if "passphrase" in case:
        case["passphrase"] = rnd.choice(["", "", "correct horse battery staple ✓", "0OIl-marker-pass-%d" % rnd.randrange(10 ** 6),
                                         "pässwörd mit ümlaut und länge"])
    if case["end"] - case["start"] > 6:
        case["end"] = case["start"] + rnd.randrange(0, 6)
    case["default_json"] = False
    return case


def run(ctx):
    rnd = ctx.rnd
    for j in range(ctx.scale(96, 8000)):
        judge_wallet(ctx, gen_case(rnd, j + 3 * ctx.shard))
    for j in range(ctx.scale(60, 4000)):
        case = gen_case(rnd, j + 2 * ctx.shard)
        if case["end"] <= case["start"]:
            case["end"] = case["start"] + 1
        judge_channels(ctx, case)
    for j0 in range(ctx.scale(16, 640)):
        j = j0 * ctx.nshards + ctx.shard          # all four (network, target) combinations occur across shards
        s = rnd.choice([0, 3, H - 2])
        judge_cli(ctx, {"entropy": gen.rbytes(rnd, rnd.choice([16, 32])), "passphrase": rnd.choice(["", "0OIl-marker-passphrase"]),
                        "testnet": bool(j & 1), "account": rnd.choice([0, 5, 9, 44, 49, 84, 83696968]), "start": s, "end": s + rnd.randrange(0, 3),
                        "to_file": bool((j >> 1) & 1), "other_fs": rnd.random() < 0.4, "odd_name": rnd.choice([None, "-", "-", "~"]),
                        "source": ["from-mnemonic", "from-bip39-seed", "from-master-xprv", "from-entropy-hex"][(j >> 2) % 4],
                        "purpose": rnd.choice([44, 49, 84])})
    for j0 in range(ctx.scale(8, 320)):
        j = j0 * ctx.nshards + ctx.shard
        judge_cli(ctx, {"entropy": gen.rbytes(rnd, 16), "passphrase": "0OIl-marker-passphrase", "testnet": bool(j & 1), "account": rnd.choice([0, 3]),
                        "start": 5, "end": 8, "to_file": True, "file_fault": ("trailing-slash", "dangling-symlink", "parent-removed")[j % 3],
                        "source": ["from-mnemonic", "from-entropy-hex", "from-master-xprv"][(j // 3) % 3], "purpose": 44})
    if ctx.mine_once(5):
        judge_cli_huge(ctx, {"seed": gen.rbytes(rnd, 64), "testnet": bool(ctx.seed & 1), "n": (1 << 15) + 600 if not ctx.thorough else (1 << 16) + 600})
    # the filter itself on listings of K-1, K, K+1, K+3, 2K, 2K+1 rows per section for every threshold K written down in the code
    # under test (vpkg.harvest / vpkg.longrun)
    from .. import longrun
    for j, (k, n) in enumerate(longrun.lengths(ctx, wide=True)):
        from .. import harvest
        if ctx.mine_once(j) and n <= (1 << 22 if ctx.thorough else (300000 if k in harvest.baseline() else 2500000)):
            judge_long_filter(ctx, {"seed": gen.rbytes(rnd, 32), "testnet": bool((j + ctx.seed) & 1), "n": n, "k": k})
    ctx.extra["harvested_thresholds"] = longrun.thresholds()


def judge_long_filter(ctx, case):
    """paranoia_mode applied to a generate() result whose three listings were extended to n rows each (the rows beyond the
    first four repeat the four real ones under their own path text - the filter is a function of the structure): n rows of
    three columns come back in every section, equal to the public columns, and none of the twelve real WIFs is anywhere."""
    from btc_hd_wallet.__main__ import paranoia_mode
    from btc_hd_wallet.paper_wallet import PaperWallet
    n, tn = case["n"], case["testnet"]
    w = PaperWallet.from_bip39_seed_bytes(bip39_seed=case["seed"], testnet=tn)
    data = w.generate(account=0, interval=(0, 4))
    wifs = set()
    for sec in ("BIP44", "BIP49", "BIP84"):
        pool = [list(r) for r in data[sec]["groups"]]
        rowtype = type(data[sec]["groups"][0])
        prefix = pool[0][0].rsplit("/", 1)[0]
        wifs.update(r[3] for r in pool)
        data[sec]["groups"] = type(data[sec]["groups"])(rowtype(["%s/%d" % (prefix, j)] + pool[j & 3][1:]) for j in range(n))
    try:
        filt = paranoia_mode(data=data)
    except Exception as ex:  # noqa  (an implementation is free to refuse a listing it did not make itself: not judged)
        ctx.extra["long_filter_refused_synthetic_listing"] = ctx.extra.get("long_filter_refused_synthetic_listing", 0) + 1
        ctx.extra["long_filter_refusal"] = repr(ex)[:120]
        return None
    bad = []
    for sec in ("BIP44", "BIP49", "BIP84"):
        rows = filt.get(sec, {}).get("groups")
        if rows is None or len(rows) != n:
            bad.append(("row_count_" + sec, n, None if rows is None else len(rows)))
            continue
        src = data[sec]["groups"]
        for j, row in enumerate(rows):
            if len(row) != 3 or list(row) != list(src[j][:3]):
                bad.append(("row_" + sec, (j, list(src[j][:3])), (j, [str(x)[:16] for x in row])))
                break
    if not bad:
        for leaf in leaves(filt, []):
            if leaf in wifs:
                bad.append(("private_encoding", "absent", leaf[:10]))
                break
    ctx.extra["long_filter_rows"] = ctx.extra.get("long_filter_rows", 0) + 3 * n
    return ctx.judge("long_filter", not bad, case, "3 x %d rows of three public columns" % n, bad[:3], cls="long-filter|n%d|%s" % (n, "test" if tn else "main"),
                     mech="C15.long_filter." + (str(bad[0][0]).split("_BIP")[0] if bad else ""))


def replay(ctx, monitor, case):
    if monitor == "long_filter":
        return judge_long_filter(ctx, case)
    if monitor == "cli_paranoia" and case.get("n", 0) > 20000:
        return judge_cli_huge(ctx, case)
    if monitor == "cli_paranoia":
        judge_cli(ctx, case)
    elif monitor == "channels":
        case.pop("channel", None)
        judge_channels(ctx, case)
    else:
        judge_wallet(ctx, case)
