"""C02 - public-only derivation agrees with private derivation; hardened refused."""
from .. import gen, bridge, probes, inject
from ..ref import bip32 as rb32, secp

PROP = "C02"
LEVEL = "exploration"
SHARDS = {"quick": 8, "thorough": 16}
TIMEOUT = {"quick": 900, "thorough": 7200}
THOROUGH_MULT = 2   # thorough budgets below are multiplied by this (sized for roughly five minutes on 16 cores)
REQUIRED = {"ckd_pub": 500, "pair_walk": 100, "refuse_hardened": 100, "ckd_pub_prf": 50, "wallet_route": 100}
ANCHORS = ['bip32:PubKeyNode.ckd', 'bip32:PubKeyNode.derive_path', 'bip32:PubKeyNode.generate_children', 'bip32:PubKeyNode.extended_public_key']
RULE = ("seeded generator over public parents (from scalar classes incl. x-coordinates with leading zero bytes, both "
        "parities), chain-code classes, depth 0..254, construction form (ctor / parsed from xpub string, bytes, stream) and "
        "index classes in [0,2^31) for derivation, [2^31,2^32) for refusal; paired private/public walks of length 0..10; "
        "distinct = distinct (monitor, exact case) digests; every case recomputes CKDpub independently"
        " EXTENSIONS: + colliding 4-byte fingerprints (committed corpus), refusal through path TEXT with decorated hardened markers and through descending / straddling intervals, path shapes, stream forms, nodes of a caller-made subclass, public parents with a coordinate in [n, p) (committed corpus)")
LEVEL_TEXT = ("Every PubKeyNode.ckd execution on public-only nodes is adjudicated by an independent CKDpub model and, in "
              "paired walks, against the private derivation step by step (keys, chain codes, fingerprints, metadata, printed "
              "xpubs). Hardened indexes must raise and leave no child behind. Held on K executions over boundary classes + "
              "seeded interiors.")
LEVEL_NOTE = ("Trusted: reference model (own curve arithmetic), hashlib. IL=0 on the public side is outside the property "
              "(BIP32 does not declare it invalid; the library raises) and is not generated. ecdsa fallback backend only.")
TECHNIQUE = "runtime oracle on real PubKeyNode.ckd calls + paired private/public walk monitor + PRF failpoint"
ASSUMPTIONS = ["live EC backend is the ecdsa fallback", "parents are BIP32-valid (point on curve, depth 0..254)"]
N = secp.N
H = 1 << 31


_POOL = {}


def _parent(case):
    """case['reuse']: the same public parent OBJECT is used again when the same parent recurs."""
    xk = bridge.xkey_from_case(case)
    pub = xk.neuter()
    vp = case.get("vpurpose", 44)
    if not case.get("reuse"):
        return xk, pub, bridge.mk_node(pub, case["testnet"], case.get("form", "ctor"), public=True, purpose=vp)
    key = (case.get("k"), case.get("K"), case["c"], case["depth"], case["pindex"], case["pfp"], case["testnet"], case.get("form", "ctor"), vp)
    if key not in _POOL:
        if len(_POOL) > 200:
            _POOL.clear()
        _POOL[key] = bridge.mk_node(pub, case["testnet"], case.get("form", "ctor"), public=True, purpose=vp)
    return xk, pub, _POOL[key]


def _cls(case):
    return "%s|%s|d%s|%s" % (case.get("ktag", "k"), case.get("ctag", "c"),
                             "0" if case["depth"] == 0 else ("hi" if case["depth"] > 127 else "lo"), case.get("form", "ctor"))


def judge_ckd_pub(ctx, case):
    xk, pub, node = _parent(case)
    i = case["index"]
    exp = rb32.ckd_pub(pub, i)
    try:
        child = node.ckd(index=i)
    except Exception as e:  # noqa
        return ctx.judge("ckd_pub", False, case, exp.fields(), e, cls=_cls(case), outcome="raised", mech="C02.ckd_pub.raised")
    bad = bridge.compare_node(child, exp, case["testnet"], False)
    bad += bridge.compare_strings(child, exp, case["testnet"], False)
    if hasattr(child, "private_key") and not isinstance(getattr(type(child), "private_key", None), property):
        bad.append(("public_child_has_private_key", "none", "present"))
    # agreement with private derivation when the scalar is known
    if xk.k is not None and not bad:
        pexp = rb32.ckd_priv(xk, i)
        if pexp.sec() != bytes(child.key) or pexp.c != bytes(child.chain_code):
            bad.append(("priv_pub_agree", pexp.sec(), bytes(child.key)))
    return ctx.judge("ckd_pub", not bad, case, exp.fields(), bad, cls=_cls(case),
                     mech="C02.ckd_pub." + (bad[0][0] if bad else ""))


def judge_pair_walk(ctx, case):
    """Private node and its public twin walked along the same normal path."""
    xk = bridge.xkey_from_case(case)
    tn = case["testnet"]
    prv = bridge.mk_node(xk, tn, "ctor")
    twin_form = case.get("form", "str")
    if twin_form == "xpub-of-prv":
        from btc_hd_wallet.bip32 import PubKeyNode
        pub = PubKeyNode.parse(prv.extended_public_key(), testnet=tn)
    else:
        pub = bridge.mk_node(xk.neuter(), tn, twin_form, public=True)
    ref = xk
    bad = []
    step = 0
    for step, i in enumerate(case["path"]):
        ref = rb32.ckd_priv(ref, i)
        try:
            prv = prv.ckd(index=i)
            pub = pub.ckd(index=i)
        except Exception as e:  # noqa
            bad.append(("raised@%d" % step, "child", e))
            break
        vpub = bridge.versions(tn)[1]
        if bytes(pub.key) != prv.public_key.sec():
            bad.append(("key@%d" % step, prv.public_key.sec(), bytes(pub.key)))
        if bytes(pub.key) != ref.sec():
            bad.append(("key_vs_ref@%d" % step, ref.sec(), bytes(pub.key)))
        if bytes(pub.chain_code) != bytes(prv.chain_code) or bytes(pub.chain_code) != ref.c:
            bad.append(("chain@%d" % step, ref.c, bytes(pub.chain_code)))
        if pub.fingerprint() != prv.fingerprint() or pub.fingerprint() != ref.fingerprint():
            bad.append(("fingerprint@%d" % step, ref.fingerprint(), pub.fingerprint()))
        if bytes(pub.parent_fingerprint) != bytes(prv.parent_fingerprint) or bytes(pub.parent_fingerprint) != ref.pfp:
            bad.append(("parent_fp@%d" % step, ref.pfp, bytes(pub.parent_fingerprint)))
        if (pub.depth, pub.index) != (prv.depth, prv.index) or (pub.depth, pub.index) != (ref.depth, ref.index):
            bad.append(("meta@%d" % step, (ref.depth, ref.index), (pub.depth, pub.index)))
        a, b = pub.extended_public_key(), prv.extended_public_key()
        if a != b or a != ref.xpub(vpub):
            bad.append(("xpub@%d" % step, ref.xpub(vpub), a))
        if bad:
            break
    return ctx.judge("pair_walk", not bad, case, ref.fields(), bad,
                     cls="walk|len%d|%s" % (len(case["path"]), twin_form),
                     mech="C02.pair_walk." + (bad[0][0].split("@")[0] if bad else ""))


def judge_refuse(ctx, case):
    xk, pub, node = _parent(case)
    i = case["index"]
    n0 = len(node.children)
    via = case.get("via", "ckd")
    try:
        if via == "ckd":
            r = node.ckd(index=i)
        elif via == "derive_path":
            r = node.derive_path(index_list=list(case["prefix"]) + [i])
        elif via == "by_path_text":
            # the request as TEXT on a watch-only wallet: whatever decorates the hardened component (blank, tab, newline
            # after or before the marker, either marker letter, either root letter), a component that carries a hardened
            # marker is either malformed or hardened - both must be refused, never derived as the normal index
            from btc_hd_wallet.base_wallet import BaseWallet
            w = BaseWallet.from_extended_key(pub.xpub(rb32.version_for("pub", case["testnet"], case.get("vpurpose", 44))))
            comps = [str(c) for c in case["prefix"]] + [case["spelling"] % (i - H)]
            r = w.by_path(case.get("root", "M") + "/" + "/".join(comps))
        elif via in ("prv-class-parse-xpub", "prv-class-ctor-sec"):
            # public-only data loaded through the PRIVATE node class (PrvKeyNode.parse(<xpub>), which from_extended_key does
            # itself to read the version, or PrvKeyNode(key=<33-byte SEC>)): it is still public-only data - a hardened child
            # must not come out of it (refusing already at parse / construction is a refusal too)
            from btc_hd_wallet.bip32 import PrvKeyNode
            if via == "prv-class-parse-xpub":
                pn = PrvKeyNode.parse(pub.xpub(rb32.version_for("pub", case["testnet"], case.get("vpurpose", 44))), testnet=case["testnet"])
            else:
                pn = PrvKeyNode(key=pub.sec(), chain_code=pub.c, index=pub.index, depth=pub.depth, testnet=case["testnet"], parent_fingerprint=pub.pfp)
            r = pn.ckd(index=i)
            r.extended_public_key()
        elif via == "generate_children_descending":
            # the interval is handed to range(): a third element (a step) has always been honoured - a listing that walks DOWN
            # from a hardened index into the normal range asks for hardened children as well
            r = node.generate_children(interval=(i, H - case.get("below", 1) - 1, -case.get("step", 1)))
            r = "list of %d nodes" % len(r)
        elif via == "generate_children_straddle":
            r = node.generate_children(interval=(H - case.get("below", 1), i + 1))
            r = "list of %d nodes" % len(r)
        else:
            r = node.generate_children(interval=(i, i + 1))
        ok, obs, outcome = False, bridge.node_obs(r) if hasattr(r, "key") else r, "returned"
    except Exception as e:  # noqa
        from ..core import raised_by_harness
        if raised_by_harness(e):
            ok, obs, outcome = False, "no refusal by the library; harness-side error afterwards: %r" % (e,), "returned"
        else:
            ok, obs, outcome = True, e, "raised:" + type(e).__name__
    # (whether the refusing node's `children` bookkeeping changed is not part of the property; recorded only)
    if ok and via == "ckd" and len(node.children) != n0:
        ctx.extra["refusal_changed_children_list"] = ctx.extra.get("refusal_changed_children_list", 0) + 1
    return ctx.judge("refuse_hardened", ok, case, "raise", obs, cls="refuse|%s|%s" % (via, case.get("itag", "")),
                     outcome=outcome, mech="C02.refuse_hardened." + outcome.split(":")[0])


def judge_ckd_pub_prf(ctx, case):
    import btc_hd_wallet.bip32 as b32
    xk, pub, node = _parent(case)
    i = case["index"]
    I = case["IL"].to_bytes(32, "big") + case["IR"]
    try:
        exp = rb32.ckd_pub_from_I(pub, i, I)
    except rb32.InvalidChild:
        return None
    with inject.PRFStub([b32], plan=lambda key, msg: I) as stub:
        try:
            child, err = node.ckd(index=i), None
        except Exception as e:  # noqa
            child, err = None, e
    want = (pub.c, pub.sec() + rb32.ser32(i))
    got = [(k, m) for k, m, _o, sub in stub.calls if sub]
    ctx.judge("prf_layout_pub", len(got) == 1 and got[0] == want, case, {"key": want[0], "msg": want[1]},
              [{"key": k, "msg": m} for k, m in got], cls="layout", mech="C02.prf_layout_pub")
    if err is not None:
        return ctx.judge("ckd_pub_prf", False, case, exp.fields(), err, cls="prf|" + case["iltag"], outcome="raised",
                         mech="C02.ckd_pub_prf.raised")
    bad = bridge.compare_node(child, exp, case["testnet"], False) + bridge.compare_strings(child, exp, case["testnet"], False)
    return ctx.judge("ckd_pub_prf", not bad, case, exp.fields(), bad, cls="prf|" + case["iltag"],
                     mech="C02.ckd_pub_prf." + (bad[0][0] if bad else ""))


def judge_wallet_route(ctx, case):
    """The same key imported as a private and as a public extended key (any of the six flavours per side) through
    BaseWallet.from_extended_key; the same normal path derived through a randomly chosen API on each side; every
    node-level output - including extended_public_key() with its DEFAULT version - must agree with the other side and
    with the reference."""
    from btc_hd_wallet.base_wallet import BaseWallet
    xk = bridge.xkey_from_case(case)
    tn = case["testnet"]
    net = "test" if tn else "main"
    wp = BaseWallet.from_extended_key(xk.xprv(rb32.SLIP132[("prv", net, case["prv_purpose"])]))
    wq = BaseWallet.from_extended_key(xk.xpub(rb32.SLIP132[("pub", net, case["pub_purpose"])]))
    path = case["path"]

    def walk(w, how):
        if how == "by_path" and len(path) <= 5:
            from ..ref import path as rpath
            return w.by_path(rpath.fmt(path, "M"))
        if how == "derive_path":
            # the index path in the shape chosen for this case (the unchanged code accepts any iterable); both sides get the
            # SAME indexes, so whatever the shape, the two answers must describe the same node
            try:
                return w.master.derive_path(index_list=gen.path_form(case.get("pform", "list"), path))
            except TypeError:
                if case.get("pform", "list") in ("list", "tuple"):
                    raise
                ctx.extra["path_shape_refused"] = ctx.extra.get("path_shape_refused", 0) + 1
                return w.master.derive_path(index_list=list(path))
        if how == "generate_children" and path:
            n = w.master.derive_path(index_list=list(path[:-1]))
            return n.generate_children(interval=(path[-1], path[-1] + 1))[0]
        n = w.master
        for i in path:
            n = n.ckd(index=i)
        return n
    bad = []
    try:
        a = walk(wp, case["how_prv"])
        b = walk(wq, case["how_pub"])
    except Exception as e:  # noqa
        return ctx.judge("wallet_route", False, case, "nodes", e, cls="route|raised", mech="C02.wallet_route.raised")
    ref = rb32.derive(xk, path)
    vpub = rb32.version_for("pub", tn, 44)
    if bytes(b.key) != ref.sec() or a.public_key.sec() != ref.sec():
        bad.append(("key", ref.sec(), bytes(b.key)))
    if bytes(b.chain_code) != ref.c or bytes(a.chain_code) != ref.c:
        bad.append(("chain_code", ref.c, bytes(b.chain_code)))
    if (b.depth, b.index) != (ref.depth, ref.index) or (a.depth, a.index) != (ref.depth, ref.index):
        bad.append(("meta", (ref.depth, ref.index), (b.depth, b.index)))
    if bytes(b.parent_fingerprint) != ref.pfp or bytes(a.parent_fingerprint) != ref.pfp or b.fingerprint() != ref.fingerprint():
        bad.append(("fingerprints", ref.pfp, bytes(b.parent_fingerprint)))
    sa, sb = a.extended_public_key(), b.extended_public_key()
    if sb != ref.xpub(vpub):
        bad.append(("default_xpub_public_side", ref.xpub(vpub), sb))
    if sa != ref.xpub(vpub):
        bad.append(("default_xpub_private_side", ref.xpub(vpub), sa))
    for (typ, n2, pp), v in rb32.SLIP132.items():
        if typ == "pub" and (a.extended_public_key(version=v) != ref.xpub(v) or b.extended_public_key(version=v) != ref.xpub(v)):
            bad.append(("xpub_explicit_%s%d" % (n2, pp), ref.xpub(v), b.extended_public_key(version=v)))
    for w, side in ((wp, a), (wq, b)):
        got = w.node_extended_public_key(side)
        pur = path[0] - H if path and path[0] in (44 + H, 49 + H, 84 + H) else 44
        if got != ref.xpub(rb32.version_for("pub", tn, pur)):
            bad.append(("node_extended_public_key", ref.xpub(rb32.version_for("pub", tn, pur)), got))
    return ctx.judge("wallet_route", not bad, case, ref.fields(), bad[:4],
                     cls="route|%s|prv%d|pub%d|%s|%s|%s" % (net, case["prv_purpose"], case["pub_purpose"], case["how_prv"], case["how_pub"],
                                                            case.get("pform", "list") if "derive_path" in (case["how_prv"], case["how_pub"]) else "-"),
                     mech="C02.wallet_route." + (bad[0][0] if bad else ""))


def install_probes(ctx):
    import btc_hd_wallet.bip32 as b32
    inst = probes.Installed()
    state = {"stubbed": False}

    def on_ckd(name, a, kw, res, exc):
        self = a[0]
        if state["stubbed"] or type(self) is not b32.PubKeyNode:
            return
        i = kw.get("index", a[1] if len(a) > 1 else None)
        if not isinstance(i, int) or not 0 <= i < 1 << 32 or self.depth >= 255:
            return
        try:
            par = bridge.ref_from_node(self)
        except secp.BadPoint:
            return
        case = {"K": par.sec(), "c": par.c, "depth": par.depth, "pindex": par.index, "pfp": par.pfp,
                "testnet": self.testnet, "index": i, "form": "probe"}
        if i >= H:
            ctx.judge("probe.PubKeyNode.ckd", exc is not None, case, "raise", res and bridge.node_obs(res),
                      cls="probe|hard", outcome="raised" if exc is not None else "returned", mech="C02.probe.hardened_returned")
            return
        try:
            exp = rb32.ckd_pub(par, i)
        except rb32.InvalidChild:
            return
        if exc is not None:
            ctx.judge("probe.PubKeyNode.ckd", False, case, exp.fields(), exc, cls="probe|norm", outcome="raised",
                      mech="C02.probe.ckd.raised")
            return
        bad = bridge.compare_node(res, exp, self.testnet, False)
        ctx.judge("probe.PubKeyNode.ckd", not bad, case, exp.fields(), bad, cls="probe|norm",
                  mech="C02.probe.ckd." + (bad[0][0] if bad else ""))

    def rec(name, ok, self, result, old):
        if name.endswith("(observation)"):
            k = "children_bookkeeping_" + ("as_before" if ok else "differs")
            ctx.extra[k] = ctx.extra.get(k, 0) + 1
            return
        if type(self) is b32.PubKeyNode:
            ctx.judge("ckd_state", ok, None if ok else {"contract": name, "parent": bridge.node_obs(self)}, old, None,
                      cls=name, mech="C02." + name)

    probes.try_install(ctx, "icontract PubKeyNode.ckd", probes.contract_ckd_state, inst, b32.PubKeyNode, rec)
    probes.try_install(ctx, "observe PubKeyNode.ckd", probes.observe_method, inst, b32.PubKeyNode, "ckd", on_ckd)
    return inst, state


def gen_pub_parent(rnd, lzx):
    r = rnd.random()
    if lzx and r < 0.15:
        ktag, k = "K:x-leading-zero", rnd.choice(lzx)
    else:
        ktag, k = gen.scalar(rnd)
    ctag, c = gen.chain_code(rnd)
    d = gen.depth(rnd)
    return {"k": k, "c": c, "depth": d, "ktag": ktag + (":odd" if secp.gmul(k)[1] & 1 else ":even"), "ctag": ctag,
            "pindex": 0 if d == 0 else gen.index(rnd)[1], "pfp": b"\x00" * 4 if d == 0 else gen.rbytes(rnd, 4),
            "testnet": rnd.random() < 0.5, "form": rnd.choice(["ctor", "str", "str", "bytes", "stream", "stream-offset", "stream-second", "sub-ctor", "sub-str"]), "vpurpose": rnd.choice([44, 44, 49, 84])}


def run(ctx):
    rnd = ctx.rnd
    lzx = gen.leading_zero_x_scalars() + gen.leading_zero_y_scalars()
    ctx.extra["lzx_corpus"] = len(lzx)
    inst, pstate = install_probes(ctx)
    try:
        n = 0
        for k in lzx + [kk for _t, kk in gen.scalar_corners()]:
            for i in (0, 1, H - 1):
                n += 1
                if ctx.mine(n):
                    case = {"k": k, "c": gen.rbytes(rnd, 32), "depth": 0, "pindex": 0, "pfp": b"\x00" * 4,
                            "ktag": "K:corpus", "ctag": "c:random", "testnet": bool(n & 1),
                            "form": ("ctor", "str")[n % 2], "index": i}
                    judge_ckd_pub(ctx, case)
        # public parents nobody holds the secret of, with a coordinate in [n, p) (committed corpus, re-certified at load)
        hc = gen.high_coordinate_points()
        ctx.extra["high_coordinate_point_corpus"] = len(hc)
        for pi, pt in enumerate(hc):
            n += 1
            if ctx.mine(n):
                from ..ref import secp as _secp
                judge_ckd_pub(ctx, {"K": _secp.ser(pt, True), "c": gen.rbytes(rnd, 32), "depth": 1, "pindex": 5, "pfp": b"\x01\x02\x03\x04",
                                    "ktag": "K:coordinate>=n", "ctag": "c:random", "testnet": bool(pi & 1), "form": ("ctor", "str")[pi % 2],
                                    "index": (0, 1, H - 1)[pi % 3]})
        # parents whose 4-byte fingerprints COLLIDE, used one after the other in this process, same chain code and index
        # (a truncated identifier is not an identity)
        for pi, (ka, kb) in enumerate(gen.fingerprint_collisions()):
            n += 1
            if not ctx.mine(n):
                continue
            cc = gen.rbytes(rnd, 32)
            for order in ((ka, kb), (kb, ka), (ka, kb)):
                for k in order:
                    for i in (0, 7, H - 1):
                        judge_ckd_pub(ctx, {"k": k, "c": cc, "depth": 0, "pindex": 0, "pfp": b"\x00" * 4, "ktag": "K:fingerprint-collision",
                                            "ctag": "c:random", "testnet": bool(pi & 1), "form": ("ctor", "str", "bytes")[pi % 3], "index": i})
            ctx.extra["fingerprint_collision_pairs"] = ctx.extra.get("fingerprint_collision_pairs", 0) + 1
        recent = []
        for _ in range(ctx.scale(2200, 300000)):
            if recent and rnd.random() < 0.35:
                case = dict(rnd.choice(recent))           # same parent object: repeated / new index
                if rnd.random() < 0.6:
                    case["index"] = gen.index(rnd, hardened=False)[1]
            else:
                case = gen_pub_parent(rnd, lzx)
                case["index"] = gen.index(rnd, hardened=False)[1]
                if recent and rnd.random() < 0.3:
                    # twins of an earlier parent: same public key with another chain code, same chain code with another key,
                    # other network, other depth - with the SAME index
                    tw = dict(rnd.choice(recent))
                    which = rnd.choice(["c", "c", "k", "net", "depth"])
                    if which == "c":
                        tw["c"] = gen.rbytes(rnd, 32)
                    elif which == "k":
                        tw["k"] = gen.scalar(rnd)[1]
                    elif which == "net":
                        tw["testnet"] = not tw["testnet"]
                    elif 0 < tw["depth"] < 254:
                        tw["depth"] += 1
                    case = tw
            case["reuse"] = True
            recent.append(case)
            del recent[:-12]
            judge_ckd_pub(ctx, case)
        for _ in range(ctx.scale(150, 12000)):
            case = gen_pub_parent(rnd, lzx)
            L = rnd.choice([0, 1, 2, 3, 5, 7, 10])
            case["depth"] = min(case["depth"], 254 - L)
            if case["depth"] == 0:
                case["pindex"], case["pfp"] = 0, b"\x00" * 4
            case["path"] = [gen.index(rnd, hardened=False)[1] for _ in range(L)]
            case["form"] = rnd.choice(["str", "ctor", "xpub-of-prv", "bytes", "stream", "stream-offset", "stream-second"])
            judge_pair_walk(ctx, case)
        for j in range(ctx.scale(320, 30000)):
            case = gen_pub_parent(rnd, lzx)
            if j % 8 < 5:
                case["index"] = [H, H + 1, H + 256, 2 * H - 1, 2 * H - 2][j % 8]
                case["itag"] = "edge"
            else:
                case["index"] = rnd.randrange(H, 2 * H)
                case["itag"] = "random"
            case["via"] = rnd.choice(["ckd", "ckd", "derive_path", "generate_children", "generate_children_straddle", "by_path_text"])
            if case["via"] == "by_path_text":
                case["prefix"] = [gen.index(rnd, hardened=False)[1] for _ in range(rnd.randrange(0, 3))]
                case["spelling"] = rnd.choice(["%d'", "%dh", "%d' ", "%d'\n", "%d'\t", "%dh\r\n", "%dh ", " %d'", "%d '", "%d'\x0b", "%d'\u00a0", "%dH", "%d''"])
                case["root"] = rnd.choice(["M", "M", "m"])
                case["itag"] = "text:" + repr(case["spelling"])
            if case["via"] == "generate_children_straddle":
                case["index"] = H + rnd.randrange(0, 3)
                case["below"] = rnd.randrange(1, 4)
            if rnd.random() < 0.1:
                case["via"] = rnd.choice(["prv-class-parse-xpub", "prv-class-ctor-sec"])
            elif rnd.random() < 0.12:
                case["via"] = "generate_children_descending"
                case["index"] = H + rnd.randrange(0, 4)
                case["below"] = rnd.randrange(1, 4)
                case["step"] = rnd.choice([1, 1, 2, 3])
            if case["via"] == "derive_path":
                L = rnd.randrange(0, 3)
                case["depth"] = min(case["depth"], 250)
                case["prefix"] = [gen.index(rnd, hardened=False)[1] for _ in range(L)]
            judge_refuse(ctx, case)
        for j in range(ctx.scale(180, 20000)):
            base = gen_pub_parent(rnd, lzx)
            d = rnd.choice([0, 0, 1, 3])
            base.update({"depth": d, "pindex": 0 if d == 0 else gen.index(rnd)[1], "pfp": b"\x00" * 4 if d == 0 else gen.rbytes(rnd, 4)})
            base.update({"testnet": bool(j & 1), "prv_purpose": rnd.choice([44, 49, 84]), "pub_purpose": [44, 49, 84][(j // 2) % 3],
                         "path": [gen.index(rnd, hardened=False)[1] for _ in range(rnd.randrange(0, 5))],
                         "how_prv": rnd.choice(["by_path", "derive_path", "ckd", "generate_children"]),
                         "how_pub": rnd.choice(["by_path", "derive_path", "derive_path", "ckd", "generate_children"]),
                         "pform": rnd.choice(gen.PATH_FORMS)})
            judge_wallet_route(ctx, base)
        pstate["stubbed"] = True
        for _ in range(ctx.scale(40, 3000)):
            base = gen_pub_parent(rnd, lzx)
            k = base["k"]
            for iltag, il in [("IL=1", 1), ("IL=n-1", N - 1), ("child=(n-1)G", (N - 1 - k) % N),
                              ("child=G:wrap", (N + 1 - k) % N), ("IL=random", rnd.randrange(1, N))]:
                if il == 0:
                    continue
                case = dict(base)
                case.update({"index": gen.index(rnd, hardened=False)[1], "IL": il, "IR": gen.rbytes(rnd, 32), "iltag": iltag})
                judge_ckd_pub_prf(ctx, case)
        pstate["stubbed"] = False
    finally:
        inst.remove()


def replay(ctx, monitor, case):
    inst, pstate = install_probes(ctx)
    try:
        if case.get("form") == "probe":
            case["form"] = "ctor"
        if monitor == "wallet_route":
            judge_wallet_route(ctx, case)
        elif monitor == "pair_walk":
            judge_pair_walk(ctx, case)
        elif monitor == "refuse_hardened" or (monitor.startswith("probe") and case["index"] >= H):
            judge_refuse(ctx, case)
        elif monitor in ("ckd_pub_prf", "prf_layout_pub"):
            pstate["stubbed"] = True
            judge_ckd_pub_prf(ctx, case)
        else:
            judge_ckd_pub(ctx, case)
    finally:
        inst.remove()
