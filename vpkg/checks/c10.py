"""C10 - Base58Check is lossless and never accepts a string with a wrong checksum."""
from .. import gen, probes
from ..ref import base58 as rb58
from ..ref.hashes import hash256

PROP = "C10"
LEVEL = "exploration"
SHARDS = {"quick": 8, "thorough": 16}
TIMEOUT = {"quick": 900, "thorough": 7200}
THOROUGH_MULT = 4   # thorough budgets below are multiplied by this (sized for roughly five minutes on 16 cores)
REQUIRED = {"bytes_roundtrip": 8000, "string_roundtrip": 3000, "check_decoder": 8000, "check_encoder": 2000, "consumer": 2000}
ANCHORS = ['helper:encode_base58', 'helper:decode_base58', 'helper:encode_base58_checksum', 'helper:decode_base58_checksum', 'helper:b58decode_addr']
RULE = ("(i) all lengths 1..128 x leading zero counts 0..len (8256 structured cases, enumerated) + random; (ii) all 58 "
        "single characters, all-'1' strings of length 1..64, random alphabet strings with 0..8 leading '1'; (iii) candidate "
        "strings for the checksummed decoder derived from valid encodings by substitution (incl. look-alikes 0 O I l), "
        "insertion, deletion, transposition, '1'-prefixing, truncation to 0..5 chars, case flips - each classified by the "
        "independent decoder as badchar|short|mismatch|valid(payload); distinct = distinct (monitor, case) digests"
        " EXTENSIONS: + carry-aliasing grid for non-alphabet characters (values -58..-1 and 58..115), consumers (WIF / extended key / wallet import / address payload), affixed out-of-range characters, 58^k-1 / 58^k / 58^k+1 and saturated / sparse inputs up to 8 KiB (thorough 128 KiB), request histories of K+3 distinct strings / payloads per harvested threshold K with a second look at the earliest answers, byte-level checksum forgeries re-encoded (each byte altered, pairs swapped, rotated)")
LEVEL_TEXT = ("Every encode/decode call is compared with an independent byte-wise long-division codec; the checksummed "
              "decoder is run as a differential against an independent classifier over mutated strings: it must raise for "
              "bad characters, too-short strings and checksum mismatches and return exactly the payload otherwise.")
LEVEL_NOTE = "Trusted: reference Base58 (self-tested), hashlib SHA-256. Empty inputs are outside the property's quantifier and not judged."
TECHNIQUE = "differential runtime oracle (independent Base58Check codec/classifier) on real calls over a mutation grammar"
ASSUMPTIONS = []
ALPH = rb58.ALPHABET
LOOKALIKE = "0OIl"


def judge_bytes_roundtrip(ctx, case):
    import btc_hd_wallet.helper as h
    b = case["data"]
    bad = []
    try:
        s = h.encode_base58(b)
        want = rb58.encode(b)
        if s != want:
            bad.append(("encode", want, s))
        lead0 = len(b) - len(b.lstrip(b"\x00"))
        lead1 = len(s) - len(s.lstrip("1"))
        if lead0 != lead1:
            bad.append(("leading_ones", lead0, lead1))
        back = h.decode_base58(want)
        if back != b:
            bad.append(("decode_of_encode", b, back))
    except Exception as e:  # noqa
        bad.append(("raised", None, e))
    z = len(b) - len(b.lstrip(b"\x00"))
    return ctx.judge("bytes_roundtrip", not bad, case, None, bad,
                     cls="bytes|len%s|z%s" % ("1" if len(b) == 1 else ("<=32" if len(b) <= 32 else ">32"), "0" if z == 0 else ("all" if z == len(b) else "n")),
                     mech="C10.bytes_roundtrip." + (bad[0][0] if bad else ""))


def judge_string_roundtrip(ctx, case):
    import btc_hd_wallet.helper as h
    s = case["s"]
    bad = []
    try:
        b = h.decode_base58(s)
        want = rb58.decode(s)
        if b != want:
            bad.append(("decode", want, b))
        back = h.encode_base58(want)
        if back != s:
            bad.append(("encode_of_decode", s, back))
    except Exception as e:  # noqa
        bad.append(("raised", None, e))
    return ctx.judge("string_roundtrip", not bad, case, None, bad, cls="str|%s" % case.get("tag", ""),
                     mech="C10.string_roundtrip." + (bad[0][0] if bad else ""))


def judge_check_decoder(ctx, case):
    import btc_hd_wallet.helper as h
    s = case["s"]
    kind, payload = rb58.classify_check(s)
    try:
        got, err = h.decode_base58_checksum(s), None
    except Exception as e:  # noqa
        got, err = None, e
        if kind != "valid":
            try:                       # a refusal has to be stable: asked again straight away it is refused again
                got, err = h.decode_base58_checksum(s), None
            except Exception as e2:  # noqa
                err = e2
    cls = "chk|%s|%s" % (case.get("tag", ""), kind)
    if kind == "valid":
        if err is not None:
            return ctx.judge("check_decoder", False, case, payload, err, cls=cls, outcome="raised-on-valid", mech="C10.check_decoder.rejected_valid")
        return ctx.judge("check_decoder", got == payload, case, payload, got, cls=cls, outcome="payload", mech="C10.check_decoder.wrong_payload")
    return ctx.judge("check_decoder", err is not None, case, "raise (%s)" % kind, got, cls=cls,
                     outcome="raised" if err is not None else "accepted", mech="C10.check_decoder.accepted_" + kind)


def judge_check_encoder(ctx, case):
    import btc_hd_wallet.helper as h
    b = case["data"]
    bad = []
    try:
        s = h.encode_base58_checksum(b)
        if s != rb58.encode_check(b):
            bad.append(("encode_check", rb58.encode_check(b), s))
        if rb58.classify_check(s) != ("valid", b):
            bad.append(("not_decodable", b, rb58.classify_check(s)[0]))
        if len(b) >= 1:
            a = h.b58decode_addr(rb58.encode_check(b))
            if a != b[1:]:
                bad.append(("b58decode_addr", b[1:], a))
    except Exception as e:  # noqa
        bad.append(("raised", None, e))
    return ctx.judge("check_encoder", not bad, case, None, bad, cls="enc|len%d" % min(len(b), 80), mech="C10.check_encoder." + (bad[0][0] if bad else ""))


def judge_consumer(ctx, case):
    """Entry points that take a Base58Check string (WIF import, extended-key parse, wallet import, address payload):
    a string the reference classifier refuses (bad character / too short / checksum mismatch) must be refused by each
    of them as well - a consumer with its own decoding path must not be more lenient than the checksummed decoder."""
    import btc_hd_wallet.helper as h
    from btc_hd_wallet.keys import PrivateKey
    from btc_hd_wallet.bip32 import PrvKeyNode, PubKeyNode
    from btc_hd_wallet.base_wallet import BaseWallet
    s, kind = case["s"], case["kind"]
    ref_kind, payload = rb58.classify_check(s) if all(ord(c) < 128 for c in s) else ("badchar", None)
    if ref_kind == "valid":
        return None
    consumers = {"wif": [("PrivateKey.from_wif", lambda: bytes(PrivateKey.from_wif(s)))],
                 "xprv": [("PrvKeyNode.parse", lambda: PrvKeyNode.parse(s).chain_code), ("BaseWallet.from_extended_key", lambda: BaseWallet.from_extended_key(s).testnet)],
                 "xpub": [("PubKeyNode.parse", lambda: PubKeyNode.parse(s).chain_code), ("BaseWallet.from_extended_key", lambda: BaseWallet.from_extended_key(s).testnet)],
                 "addr": [("b58decode_addr", lambda: h.b58decode_addr(s))]}[kind]
    for name, fn in consumers:
        try:
            r = fn()
            ok, obs = False, r
        except Exception as e:  # noqa
            ok, obs = True, e
        ctx.judge("consumer", ok, dict(case, consumer=name), "raise (%s)" % ref_kind, obs, cls="cons|%s|%s|%s" % (name, case.get("tag", ""), ref_kind),
                  outcome="raised" if ok else "accepted", mech="C10.consumer.%s.accepted_%s" % (name, ref_kind))


def mutate(rnd, s):
    """One mutation of a valid string; returns (tag, string)."""
    op = rnd.choice(["subst", "subst", "subst-lookalike", "insert", "delete", "transpose", "prefix1", "truncate", "caseflip",
                     "strip1", "append", "nonascii", "space", "affix-outside"])
    if not s:
        return "empty", s
    if op == "affix-outside":
        # a character that is not Base58 at either END of an otherwise valid string (what `$`, strip() and friends forgive)
        c = rnd.choice([" ", "\t", "\n", "\r", "\r\n", "\x0b", "\x0c", "\x00", "\x7f", "\x1c", "\x85", "\xa0", "\u2028", "\ufeff", "\u200b", "\n\n"])
        return op, (s + c) if rnd.random() < 0.6 else (c + s)
    i = rnd.randrange(len(s))
    if op == "subst":
        c = rnd.choice(ALPH.replace(s[i], ""))
        return op, s[:i] + c + s[i + 1:]
    if op == "subst-lookalike":
        return op, s[:i] + rnd.choice(LOOKALIKE) + s[i + 1:]
    if op == "insert":
        return op, s[:i] + rnd.choice(ALPH + LOOKALIKE) + s[i:]
    if op == "delete":
        return op, s[:i] + s[i + 1:]
    if op == "transpose":
        if len(s) < 2:
            return op, s
        i = rnd.randrange(len(s) - 1)
        return op, s[:i] + s[i + 1] + s[i] + s[i + 2:]
    if op == "prefix1":
        return op, "1" * rnd.randrange(1, 4) + s
    if op == "strip1":
        return op, s.lstrip("1") if s.startswith("1") else s[1:]
    if op == "truncate":
        return op, s[:rnd.randrange(0, 6)]
    if op == "caseflip":
        return op, s[:i] + s[i].swapcase() + s[i + 1:]
    if op == "append":
        return op, s + rnd.choice(ALPH)
    if op == "nonascii":
        return op, s[:i] + rnd.choice("é١Ａ") + s[i + 1:]
    return op, s[:i] + " " + s[i:]


def gen_payload(rnd):
    r = rnd.random()
    if r < 0.35:
        ln = rnd.choice([21, 33, 34, 78])
    elif r < 0.45:
        ln = rnd.randrange(0, 4)
    else:
        ln = rnd.randrange(1, 100)
    z = rnd.choice([0, 0, 0, 1, 2, ln]) if ln else 0
    z = min(z, ln)
    return b"\x00" * z + gen.rbytes(rnd, ln - z)


def run(ctx):
    rnd = ctx.rnd
    n = 0
    top = 128
    for ln in range(1, top + 1):
        for z in range(0, ln + 1):
            n += 1
            if ctx.mine(n):
                body = gen.rbytes(rnd, ln - z)
                if body and body[0] == 0:
                    body = b"\x01" + body[1:]
                judge_bytes_roundtrip(ctx, {"data": b"\x00" * z + body})
    for _ in range(ctx.scale(2000, 600000)):
        judge_bytes_roundtrip(ctx, {"data": gen_payload(rnd) or b"\x00"})
    # LONG inputs ("every non-empty byte string"): a digit-count estimate, a chunked or a divide-and-conquer encoder is exact
    # for address-sized input and drifts later.  Saturated (ff..ff), sparse (80 00..00, 01 00..00), 58^k +- 1 and random
    # values at lengths from 129 bytes to 8 KiB (thorough: 128 KiB; the conversions are quadratic).
    longs = list(range(129, 141)) + [200, 226, 227, 228, 255, 256, 257, 320, 361, 413, 512, 1000, 1001, 1024, 2048, 4096, 8192]
    if ctx.thorough:
        longs += [10000, 20000, 65536, 131072]
    for li, ln in enumerate(longs):
        n += 1
        if not ctx.mine_once(n):
            continue
        pats = [b"\xff" * ln, b"\x80" + b"\x00" * (ln - 1), b"\x01" + b"\x00" * (ln - 1), b"\x00" * 3 + b"\xff" * (ln - 3), gen.rbytes(rnd, ln),
                gen.rbytes(rnd, ln)]
        k58 = (ln * 8 * 1000) // 5858          # 58^k has about ln bytes
        for delta in (-1, 0, 1):
            v = 58 ** k58 + delta
            pats.append(v.to_bytes((v.bit_length() + 7) // 8, "big"))
        for d_ in pats:
            if ln > 20000 and d_ is not pats[0] and d_ is not pats[4]:
                continue
            judge_bytes_roundtrip(ctx, {"data": d_})
    for c in ALPH:
        n += 1
        if ctx.mine(n):
            judge_string_roundtrip(ctx, {"s": c, "tag": "single"})
    for ln in range(1, 65):
        n += 1
        if ctx.mine(n):
            judge_string_roundtrip(ctx, {"s": "1" * ln, "tag": "all-ones"})
    for _ in range(ctx.scale(3000, 600000)):
        ln = rnd.randrange(1, 120)
        ones = rnd.choice([0, 0, 0, 1, 2, 8])
        body = "".join(rnd.choice(ALPH) for _ in range(ln))
        if ones and body.startswith("1") is False:
            body = "1" * ones + body
        judge_string_roundtrip(ctx, {"s": body, "tag": "ones%d" % min(ones, 2)})
    for _ in range(ctx.scale(2400, 400000)):
        judge_check_encoder(ctx, {"data": gen_payload(rnd)})
    for _ in range(ctx.scale(2500, 500000)):
        p = gen_payload(rnd)
        valid = rb58.encode_check(p)
        judge_check_decoder(ctx, {"s": valid, "tag": "valid"})
        for _k in range(3):
            tag, s = mutate(rnd, valid)
            if rnd.random() < 0.15:
                tag2, s = mutate(rnd, s)
                tag += "+" + tag2
            if s:
                judge_check_decoder(ctx, {"s": s, "tag": tag if "+" not in tag else "double"})
    # Unicode confusables of alphabet characters (fullwidth / mathematical / case-folding look-alikes): never valid Base58
    for _ in range(ctx.scale(800, 100000)):
        valid = rb58.encode_check(gen_payload(rnd))
        t, nrep = gen.confuse(rnd, valid)
        if nrep:
            judge_check_decoder(ctx, {"s": t, "tag": "confusable"})
            try:
                import btc_hd_wallet.helper as h
                h.decode_base58(t)
                # (the property promises nothing about the RAW decoder on strings outside the alphabet: recorded, not judged)
                ctx.extra["raw_decoder_accepted_non_alphabet"] = ctx.extra.get("raw_decoder_accepted_non_alphabet", 0) + 1
            except Exception:  # noqa
                ctx.extra["raw_decoder_refused_non_alphabet"] = ctx.extra.get("raw_decoder_refused_non_alphabet", 0) + 1
    # consumers with their own entry point: WIF (4 flavours), extended keys (12 versions), addresses
    from ..ref import bip32 as rb32x
    for _ in range(ctx.scale(700, 80000)):
        kind = rnd.choice(["wif", "wif", "xprv", "xpub", "addr"])
        if kind == "wif":
            k = rnd.randrange(1, rb32x.secp.N)
            valid = rb58.encode_check(bytes([rnd.choice([0x80, 0xEF])]) + k.to_bytes(32, "big") + rnd.choice([b"\x01", b""]))
        elif kind in ("xprv", "xpub"):
            xk = rb32x.XKey(rnd.randrange(1, rb32x.secp.N), None, gen.rbytes(rnd, 32))
            ver = rnd.choice([v for (t, n_, p), v in rb32x.SLIP132.items() if t == kind[1:]])
            valid = xk.xprv(ver) if kind == "xprv" else xk.xpub(ver)
        else:
            valid = rb58.encode_check(bytes([rnd.choice([0x00, 0x05, 0x6F, 0xC4])]) + gen.rbytes(rnd, 20))
        for _k in range(3):
            tag, s_ = mutate(rnd, valid)
            if s_:
                judge_consumer(ctx, {"s": s_, "kind": kind, "tag": tag})
        for pre in ("1", "11", "111"):
            judge_consumer(ctx, {"s": pre + valid, "kind": kind, "tag": "prefix1"})
    # raw (non-checksummed) encodings fed to the checksummed decoder, incl. short ones
    for _ in range(ctx.scale(600, 60000)):
        ln = rnd.choice([1, 2, 3, 4, 5, 8, 25])
        raw = gen.rbytes(rnd, ln)
        if rnd.random() < 0.3:
            raw = b"\x00" * ln
        s = rb58.encode(raw)
        if s:
            judge_check_decoder(ctx, {"s": s, "tag": "raw-len%d" % ln})
    # Grid: every printable non-alphabet ASCII character (incl. the look-alikes 0 O I l) substituted for every one of the 58
    # digit values in otherwise valid strings.  A decoder that silently maps such a character to SOME digit accepts the string
    # in which that digit was the original one - whatever the mapping is, one of the 58 trials hits it.
    bad_ascii = [chr(c) for c in range(32, 127) if chr(c) not in ALPH]
    pool = []
    for _ in range(60):
        pool.append(rb58.encode_check(gen.rbytes(rnd, rnd.choice([21, 33, 34, 78]))))
    for ci, c in enumerate(bad_ascii):
        n += 1
        if not ctx.mine(n):
            continue
        for d in range(58):
            want = ALPH[d]
            cand = [s_ for s_ in pool if want in s_[1:]]
            if not cand:
                continue
            s_ = rnd.choice(cand)
            pos = rnd.choice([i for i in range(1, len(s_)) if s_[i] == want])
            judge_check_decoder(ctx, {"s": s_[:pos] + c + s_[pos + 1:], "tag": "grid-nonalphabet"})
        # ... and to a value OUTSIDE 0..57 (str.find's -1, an ord() difference, a table default): then the string in which
        # the neighbouring digit absorbs the carry is numerically the original one.  v = digit - 58*k for k in {-1, 1}
        # covers every mapping into -58..-1 and 58..115; by now the character has been seen (and refused) many times in
        # this process, so a decoder that remembers refused characters is past its first sighting.
        for v in list(range(-58, 0)) + list(range(58, 116)):
            d = v % 58
            k = (d - v) // 58            # the left neighbour absorbs the carry: a*58 + d == (a + k)*58 + v
            hits = [(s_, i) for s_ in pool for i in range(2, len(s_)) if s_[i] == ALPH[d] and 0 <= ALPH.index(s_[i - 1]) + k <= 57]
            if not hits:
                continue
            s_, pos = rnd.choice(hits)
            t = s_[:pos - 1] + ALPH[ALPH.index(s_[pos - 1]) + k] + c + s_[pos + 1:]
            judge_check_decoder(ctx, {"s": t, "tag": "grid-nonalphabet-carry"})
        # also at position 0 and as the only change of a '1'-prefixed string
        s_ = rnd.choice(pool)
        judge_check_decoder(ctx, {"s": c + s_[1:], "tag": "grid-nonalphabet-first"})
    # ALL strings of one and two alphabet characters (3422, exhaustive): every one is too short to hold a checksum
    k2 = 0
    for a in ALPH:
        n += 1
        if ctx.mine(n):
            judge_check_decoder(ctx, {"s": a, "tag": "all-1char"})
            for b in ALPH:
                judge_check_decoder(ctx, {"s": a + b, "tag": "all-2char"})
    # truncated checksums: payload followed by only the first 0..3 bytes of its checksum (incl. the empty payload)
    for _ in range(ctx.scale(160, 20000)):
        p = rnd.choice([b"", b"", b"\x00", gen.rbytes(rnd, rnd.randrange(0, 3)), gen_payload(rnd)])
        for k in (0, 1, 2, 3):
            s_ = rb58.encode(p + hash256(p)[:k])
            if s_:
                judge_check_decoder(ctx, {"s": s_, "tag": "truncated-checksum-%d" % k})
    # crafted: last four decoded bytes equal a *single* SHA-256 prefix, or hash of payload+checksum
    import hashlib
    for _ in range(ctx.scale(120, 8000)):
        p = gen_payload(rnd)
        single = rb58.encode(p + hashlib.sha256(p).digest()[:4])
        judge_check_decoder(ctx, {"s": single, "tag": "single-sha"})
        three = p + hash256(p)[:3] + bytes([hash256(p)[3] ^ 0x01])
        judge_check_decoder(ctx, {"s": rb58.encode(three), "tag": "chk-3of4"})
        # byte-level forgeries, re-encoded (a character edit never changes ONE checksum byte alone): each of the four checksum
        # bytes off by one bit / all bits / replaced, every pair of bytes swapped, the checksum rotated
        c = hash256(p)[:4]
        for pos in range(4):
            for x in (0x01, 0x80, 0xFF, rnd.randrange(1, 256)):
                forged = c[:pos] + bytes([c[pos] ^ x]) + c[pos + 1:]
                judge_check_decoder(ctx, {"s": rb58.encode(p + forged), "tag": "chk-byte%d-altered" % pos})
        for a_, b_ in ((0, 1), (0, 3), (1, 2), (2, 3)):
            if c[a_] != c[b_]:
                lst = bytearray(c)
                lst[a_], lst[b_] = lst[b_], lst[a_]
                judge_check_decoder(ctx, {"s": rb58.encode(p + bytes(lst)), "tag": "chk-bytes-swapped"})
        if c[1:] + c[:1] != c:
            judge_check_decoder(ctx, {"s": rb58.encode(p + c[1:] + c[:1]), "tag": "chk-rotated"})
        swapped = p + hash256(p)[3::-1]
        judge_check_decoder(ctx, {"s": rb58.encode(swapped), "tag": "chk-reversed"})
    # K+3 DISTINCT requests in one process, then a second look at the earliest ones, for every threshold K written down in the
    # code under test (vpkg.harvest / vpkg.longrun): the answer to a string / payload depends on it alone however many others
    # were decoded / encoded in between
    import btc_hd_wallet.helper as h
    from .. import longrun
    jobs = [(k, n_, which) for k, n_ in longrun.lengths(ctx, wide=False) for which in ("decode", "encode")]
    for ji, (k, n_, which) in enumerate(jobs):
        if not ctx.mine_once(ji + 3) or not longrun.affordable(ctx, "request", n_, budget_quick=90.0, k=k):
            continue
        judge_history(ctx, {"which": which, "n": n_, "k": k, "salt": rnd.randrange(0, 256)})
    ctx.extra["harvested_thresholds"] = longrun.thresholds()


def judge_history(ctx, case):
    import btc_hd_wallet.helper as h
    from .. import longrun
    salt = bytes([case["salt"]])

    def payload(j):
        return b"\x6f" + salt + j.to_bytes(4, "big") + b"\x00\x01"
    if case["which"] == "decode":
        return longrun.ask_again(ctx, "history", "C10", "decode_base58_checksum", h.decode_base58_checksum,
                                 lambda j: (rb58.encode_check(payload(j)), payload(j)), case["n"], case["k"], budget_s=None if ctx.thorough else 100.0,
                                 extra_case={"salt": case["salt"]})
    return longrun.ask_again(ctx, "history", "C10", "encode_base58_checksum", h.encode_base58_checksum,
                             lambda j: (payload(j), rb58.encode_check(payload(j))), case["n"], case["k"], budget_s=None if ctx.thorough else 100.0,
                                 extra_case={"salt": case["salt"]})


def replay(ctx, monitor, case):
    if monitor == "history":
        return judge_history(ctx, {"which": "decode" if case["function"].startswith("decode") else "encode", "n": case["n"], "k": case["k"],
                                   "salt": case.get("salt", 0)})
    if monitor == "consumer":
        case.pop("consumer", None)
        return judge_consumer(ctx, case)
    {"bytes_roundtrip": judge_bytes_roundtrip, "string_roundtrip": judge_string_roundtrip,
     "check_decoder": judge_check_decoder, "check_encoder": judge_check_encoder}[monitor](ctx, case)
