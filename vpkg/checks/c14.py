"""C14 - watch-only wallets reproduce all public data and can never yield private data."""
from .. import gen, bridge
from ..ref import bip32 as rb32, addr as raddr, path as rpath, secp

PROP = "C14"
LEVEL = "exploration"
SHARDS = {"quick": 8, "thorough": 16}
TIMEOUT = {"quick": 900, "thorough": 7200}
REQUIRED = {"public_data": 600, "no_private": 100, "leaf_scan": 100, "hardened_refused": 100, "listing": 100}
ANCHORS = ['base_wallet:BaseWallet.from_extended_key', 'base_wallet:BaseWallet.by_path', 'base_wallet:BaseWallet.node_extended_keys', 'base_wallet:BaseWallet.node_extended_private_key', 'paper_wallet:PaperWallet.group', 'base_wallet:BaseWallet.watch_only']
RULE = ("full wallet W from a random seed x both networks; export node E at a random path of depth 0..6 (hardened steps "
        "allowed above E); ALL six public version prefixes over the run; watch-only wallet V = from_extended_key(E.xpub(v)); "
        "non-hardened sub-paths of length 0..5 with edge indexes; five address kinds; every string leaf V returns is "
        "classified by an independent decoder; distinct = distinct (monitor, case) digests"
        " EXTENSIONS: + watch-only wallets built on caller-parsed nodes (string, bytes, streams, default network flag), the full wallet asked for the private data of the same node first, listings ending at 2^31, 2^18+600 further derivations on the parent of held watch-only children (fast mode), one public node-level listing call of K-1 .. 2K+1 rows for every harvested threshold K, listings holding a hardened child number anywhere (ascending, stepped, descending) refused, short listings across every power of two")
LEVEL_TEXT = ("For each (W, E, version) the real watch-only wallet's nodes, addresses and extended public keys are compared "
              "with the reference derivation below E (which equals what the full wallet computes, also cross-checked on the "
              "real full wallet); private-data requests must raise or be None; hardened derivation must raise; every string "
              "V emits is scanned for WIF / extended-private / raw-scalar encodings of W's secrets.")
LEVEL_NOTE = "Trusted: reference model and its string classifier. The version chosen by node_extended_keys depends on the path text by design and is not compared."
TECHNIQUE = "runtime differential monitor (watch-only vs full wallet vs reference) + secret-leaf classifier"
ASSUMPTIONS = ["ecdsa fallback backend"]
H = 1 << 31
KINDS = ["p2pkh", "p2wpkh", "p2sh_p2wpkh", "p2wsh", "p2sh_p2wsh"]


def leaves(o, out):
    if isinstance(o, str):
        out.append(o)
    elif isinstance(o, dict):
        for k, v in o.items():
            leaves(k, out)
            leaves(v, out)
    elif isinstance(o, (list, tuple)):
        for v in o:
            leaves(v, out)
    elif isinstance(o, (bytes, bytearray)):
        out.append(bytes(o).hex())
    return out


def judge_triple(ctx, case):
    from btc_hd_wallet.paper_wallet import PaperWallet
    tn = case["testnet"]
    m = rb32.master(case["seed"])
    W = PaperWallet.from_bip39_seed_bytes(bip39_seed=case["seed"], testnet=tn)
    epath = case["export_path"]
    E = rb32.derive(m, epath)
    purpose = case["purpose"]
    ver = rb32.version_for("pub", tn, purpose)
    xpub = E.xpub(ver)
    # the full wallet must print the same export string (ties V's input to W)
    wE = W.master.derive_path(index_list=list(epath))
    if wE.extended_public_key(version=ver) != xpub:
        ctx.judge("public_data", False, case, xpub, wE.extended_public_key(version=ver), cls="export", mech="C14.export_mismatch")
        return
    try:
        route = case.get("import_route", "from_extended_key")
        if route == "from_extended_key":
            V = PaperWallet.from_extended_key(extended_key=xpub)
        elif route == "str-default-flag":
            # ... or on a node parsed WITHOUT telling the parser the network (its flag stays at the default) while the wallet
            # is told: what the WALLET emits follows the wallet's network
            from btc_hd_wallet.bip32 import PubKeyNode
            V = PaperWallet(master=PubKeyNode.parse(xpub), testnet=tn)
        else:
            # the watch-only wallet is built on a node parsed by the caller: from the string, the raw bytes, a stream
            # positioned behind a header, or the second record of a stream of exported keys
            V = PaperWallet(master=bridge.mk_node(E, tn, route, public=True, purpose=purpose), testnet=tn)
    except Exception as e:  # noqa
        ctx.judge("public_data", False, case, "wallet", e, cls="import|raised", mech="C14.import.raised")
        return
    cls_base = "%s|p%d|d%d" % ("test" if tn else "main", purpose, min(len(epath), 6))
    secrets = set()
    n = m
    secrets.add(n.k)
    for i in epath:
        n = rb32.ckd_priv(n, i)
        secrets.add(n.k)
    emitted = [xpub]
    # ---- flags
    bad = []
    if V.watch_only is not True:
        bad.append(("watch_only", True, V.watch_only))
    if V.bip85 is not None:
        bad.append(("bip85", None, "present"))
    if bool(V.testnet) != tn:
        bad.append(("testnet", tn, V.testnet))
    ctx.judge("no_private", not bad, case, None, bad, cls="flags|" + cls_base, mech="C14.flags." + (bad[0][0] if bad else ""))
    # ---- public data below E
    for sub in case["subpaths"]:
        ref = rb32.derive(E.neuter(), sub)
        full = rb32.derive(E, sub)
        secrets.add(full.k)
        s = rpath.fmt(sub, "M")
        try:
            vn = V.by_path(s)
            wn = wE.derive_path(index_list=list(sub))
        except Exception as e:  # noqa
            ctx.judge("public_data", False, dict(case, sub=sub), "node", e, cls="sub|raised", mech="C14.public_data.raised")
            continue
        b = bridge.compare_node(vn, ref, tn, False)
        if route == "str-default-flag":
            b = [x for x in b if x[0] != "testnet"]      # (the node-level flag is whatever the caller's parse call left there)
        if vn.fingerprint() != full.fingerprint() or vn.fingerprint() != wn.fingerprint():
            b.append(("fingerprint", full.fingerprint(), vn.fingerprint()))
        if bytes(vn.key) != wn.public_key.sec() or bytes(vn.chain_code) != bytes(wn.chain_code) or \
                (vn.depth, vn.index) != (wn.depth, wn.index) or bytes(vn.parent_fingerprint) != bytes(wn.parent_fingerprint):
            b.append(("differs_from_full_wallet", bridge.node_obs(wn), bridge.node_obs(vn)))
        for kind in KINDS:
            a_v = getattr(V, kind + "_address")(vn)
            a_w = getattr(W, kind + "_address")(wn)
            want = raddr.KINDS[kind](ref.sec(), tn)
            emitted.append(a_v)
            if a_v != want or a_v != a_w:
                b.append(("address." + kind, want, a_v))
        for (typ, net, pp), v2 in rb32.SLIP132.items():
            if typ != "pub":
                continue
            xs = vn.extended_public_key(version=v2)
            emitted.append(xs)
            if xs != ref.xpub(v2) or xs != wn.extended_public_key(version=v2):
                b.append(("xpub.%s%d" % (net, pp), ref.xpub(v2), xs))
        emitted.append(vn.extended_public_key())
        ctx.judge("public_data", not b, dict(case, sub=sub), ref.fields(), b, cls="sub%d|%s" % (len(sub), cls_base),
                  mech="C14.public_data." + (b[0][0] if b else ""))
        # the FULL wallet is asked for the private data of the very same node first (its right) - whatever it caches or
        # registers must stay out of reach of the watch-only wallet living in the same process
        if case.get("full_first", True):
            try:
                secrets_strs = [W.node_extended_private_key(wn), wn.extended_private_key()]
                ks_w = W.node_extended_keys(wn)
                secrets_strs.append(ks_w.get("prv"))
                secrets_strs.append(W.group(nodes=[wn], addr_fnc=W.p2wpkh_address)[0][3])
                ctx.extra["full_wallet_private_requests"] = ctx.extra.get("full_wallet_private_requests", 0) + 4
            except Exception as e:  # noqa
                ctx.judge("public_data", False, dict(case, sub=sub), "full wallet private data", e, cls="full|raised", mech="C14.full_wallet.raised")
        # private requests on this node
        pb = []
        try:
            r = V.node_extended_private_key(vn)
            pb.append(("node_extended_private_key", "raise", r))
            emitted.append(r)
        except Exception:  # noqa
            pass
        try:
            ks = V.node_extended_keys(vn)
            emitted.append(ks)
            if ks.get("prv") is not None:
                pb.append(("node_extended_keys.prv", None, ks.get("prv")))
            # pub in it must be SOME SLIP-132 public encoding of the right key
            cl = raddr.classify_string(ks.get("pub"))
            if cl.get("class") != "xpub" or rb32.parse_xkey(ks["pub"])[1].K != ref.K:
                pb.append(("node_extended_keys.pub", "xpub of node", ks.get("pub")))
        except Exception as e:  # noqa
            pb.append(("node_extended_keys.raised", "dict", e))
        try:
            rows = V.group(nodes=[vn], addr_fnc=V.p2wpkh_address)
            emitted.append(rows)
            if rows[0][3] is not None:
                pb.append(("group.wif", None, rows[0][3]))
            if rows[0][2] != ref.sec().hex() or rows[0][1] != raddr.p2wpkh(ref.sec(), tn):
                pb.append(("group.public", ref.sec().hex(), rows[0][2]))
        except Exception as e:  # noqa
            pb.append(("group.raised", "rows", e))
        for attr in ("private_key", "extended_private_key", "serialize_private"):
            try:
                v = getattr(vn, attr)
                v = v() if callable(v) else v
                pb.append(("node." + attr, "error", v))
                emitted.append(v if isinstance(v, (str, bytes)) else repr(v))
            except Exception:  # noqa
                pass
        ctx.judge("no_private", not pb, dict(case, sub=sub), "errors / None", pb, cls="priv|" + cls_base, mech="C14.no_private." + (pb[0][0] if pb else ""))
        # hardened refusal below vn: listings whose interval holds a hardened child number in ANY position - first, last, in the
        # middle; ascending, stepped, descending (newest first) from above 2^31 into the normal range
        for iv in ((H, H + 2), (H - 2, H + 1), (H + 1, H - 3, -1), (H, H - 2, -1), (H + 4, H - 4, -2), (2 * H - 1, H - 2, -(H // 2)), (H - 3, H + 6, 4)):
            try:
                rows = vn.generate_children(interval=iv)
                hard = [r_ for r_ in rows if r_.index >= H]
                ok, obs = not hard, ["%s" % r_ for r_ in hard[:3]] or "no hardened row"
                if not hard and any(i_ >= H for i_ in range(*iv)):
                    ok, obs = False, "listing of %d rows returned for an interval that holds hardened child numbers" % len(rows)
            except Exception as e:  # noqa
                ok, obs = True, e
            ctx.judge("hardened_refused", ok, dict(case, sub=sub, interval=list(iv), via="generate_children"), "raise", obs,
                      cls="hard|listing|%s|%s" % ("desc" if len(iv) == 3 and iv[2] < 0 else "asc", cls_base), mech="C14.hardened_returned")
        for hi in (H, H + 1, 2 * H - 1, H + ctx.rnd.randrange(0, H)):
            for via in ("ckd", "by_path"):
                try:
                    if via == "ckd":
                        r = vn.ckd(index=hi)
                    else:
                        if len(sub) >= 5:
                            continue
                        r = V.by_path(rpath.fmt(list(sub) + [hi], "M"))
                    ok, obs = False, bridge.node_obs(r)
                    emitted.append(r.extended_public_key())
                except Exception as e:  # noqa
                    ok, obs = True, e
                ctx.judge("hardened_refused", ok, dict(case, sub=sub, index=hi, via=via), "raise", obs, cls="hard|%s|%s" % (via, cls_base),
                          mech="C14.hardened_derived")
    # bulk listing AFTER single look-ups on the same watch-only nodes: count, order and content must equal the full wallet's
    for sub in case["subpaths"][:3]:
        if len(sub) > 4:
            continue
        try:
            vpar = V.by_path(rpath.fmt(sub, "M"))
            wpar = wE.derive_path(index_list=list(sub))
            looked = [ctx.rnd.randrange(0, 12) for _ in range(ctx.rnd.randrange(1, 4))]
            for i in looked:
                vpar.ckd(index=i)                      # single look-ups first (some repeated)
            if ctx.rnd.random() < 0.5:
                g = V.address_generator(vpar)
                next(g)
                g.send(ctx.rnd.randrange(1, 5))
            if ctx.rnd.random() < 0.3:
                e0 = H                                   # listing that ends exactly at the last non-hardened child number
                s0 = H - ctx.rnd.randrange(1, 4)
            else:
                s0 = ctx.rnd.choice([0, 0, 2, 5])
                e0 = s0 + ctx.rnd.randrange(3, 12)
            vl = vpar.generate_children(interval=(s0, e0))
            wl = wpar.generate_children(interval=(s0, e0))
            refpar = rb32.derive(E.neuter(), sub)
            lb = []
            if len(vl) != e0 - s0 or len(wl) != e0 - s0:
                lb.append(("count", e0 - s0, (len(vl), len(wl))))
            for j, vn in enumerate(vl[:e0 - s0]):
                rn = rb32.ckd_pub(refpar, s0 + j)
                b = bridge.compare_node(vn, rn, tn, False)
                if route == "str-default-flag":
                    b = [x for x in b if x[0] != "testnet"]
                if b:
                    lb.append(("entry%d.%s" % (j, b[0][0]), b[0][1], b[0][2]))
                    break
                if V.p2wpkh_address(vn) != raddr.p2wpkh(rn.sec(), tn):
                    lb.append(("entry%d.address" % j, raddr.p2wpkh(rn.sec(), tn), V.p2wpkh_address(vn)))
                    break
            vl2 = vpar.generate_children(interval=(s0, e0))          # asking again gives the same listing
            if [bytes(x.key) for x in vl2] != [bytes(x.key) for x in vl]:
                lb.append(("repeat_listing_differs", len(vl), len(vl2)))
            ctx.judge("listing", not lb, dict(case, sub=sub, interval=[s0, e0], looked_up_first=looked), None, lb[:3],
                      cls="listing|%s" % cls_base, mech="C14.listing." + (lb[0][0].split(".")[0].rstrip("0123456789") if lb else ""))
        except Exception as e:  # noqa
            ctx.judge("listing", False, dict(case, sub=sub), "listing", e, cls="listing|raised", mech="C14.listing.raised")
    # generate() on a watch-only wallet needs hardened steps: must raise, never emit private data
    try:
        g = V.generate(account=0, interval=(0, 1))
        emitted.append(g)
        ctx.judge("hardened_refused", False, case, "raise", "dict returned", cls="generate", mech="C14.generate_returned")
    except Exception:  # noqa
        ctx.judge("hardened_refused", True, case, cls="generate")
    # ---- leaf scan
    lb = []
    for leaf in leaves(emitted, []):
        c = raddr.classify_string(leaf)
        if c["class"] == "wif":
            lb.append(("wif", leaf))
        elif c["class"] == "xprv":
            lb.append(("xprv", leaf))
        elif len(leaf) == 64:
            try:
                if int(leaf, 16) in secrets:
                    lb.append(("raw_scalar", leaf))
            except ValueError:
                pass
        else:
            for k in secrets:
                if "%064x" % k in leaf.lower():
                    lb.append(("scalar_substring", leaf))
    ctx.judge("leaf_scan", not lb, case, "no private encoding among %d leaves" % len(emitted), lb[:4], cls="leaf|" + cls_base,
              mech="C14.leaf_scan." + (lb[0][0] if lb else ""))
    ctx.extra["leaves_scanned"] = ctx.extra.get("leaves_scanned", 0) + len(leaves(emitted, []))


def gen_case(rnd, j):
    tn = bool(j & 1)
    d = rnd.choice([0, 0, 1, 2, 3, 4, 6])
    ep = []
    for _ in range(d):
        r = rnd.random()
        ep.append(rnd.choice([44, 49, 84, 0, 1]) + H if r < 0.5 else (rnd.randrange(0, H) if r < 0.75 else rnd.randrange(H, 2 * H)))
    subs = [[]]
    for _ in range(5):
        L = rnd.randrange(1, 6)
        subs.append([rnd.choice([0, 1, H - 1, rnd.randrange(0, H)]) for _ in range(L)])
    return {"seed": gen.rbytes(rnd, rnd.choice([16, 32, 64])), "testnet": tn, "export_path": ep,
            "purpose": [44, 49, 84][(j // 2) % 3], "subpaths": subs, "full_first": rnd.random() < 0.75,
            "import_route": rnd.choice(["from_extended_key", "from_extended_key", "str", "bytes", "stream", "stream-offset", "stream-second", "str-default-flag", "str-default-flag"])}


def run(ctx):
    for j in range(ctx.scale(150, 8000)):
        judge_triple(ctx, gen_case(ctx.rnd, j + ctx.shard))
    # metadata of watch-only children that the caller still holds after their parent has served 2^18 + 600 further derivations
    # (fast mode, see c13.judge_capacity / inject.FastEC)
    if ctx.mine_once(4):
        from .c13 import judge_capacity
        judge_capacity(ctx, {"seed": gen.rbytes(ctx.rnd, 32), "testnet": bool(ctx.seed & 1), "kind": "public",
                             "n": (1 << 18) + 600 if not ctx.thorough else (1 << 20) + 600, "fast": True, "how": "mixed"})
    # ONE listing call of n rows on a PUBLIC parent, n aimed at every threshold written down in the code under test
    # (vpkg.harvest / vpkg.longrun): count, child numbers, depth / fingerprint / path text, and sampled rows against the same
    # child derived alone
    from .. import longrun
    for case in longrun.node_listing_cases(ctx, "pub", gen.rbytes(ctx.rnd, 32)):
        longrun.judge_node_listing(ctx, "long_listing", "C14", case)
    ctx.extra["harvested_thresholds"] = longrun.thresholds()
    cseed = gen.rbytes(ctx.rnd, 32)
    for b in range(1, 32):
        if ctx.mine(b):
            longrun.judge_carry_listing(ctx, "long_listing", "C14", {"seed": cseed, "testnet": bool(b & 1), "side": "pub", "b": b})


def replay(ctx, monitor, case):
    if monitor == "capacity":
        from .c13 import judge_capacity
        return judge_capacity(ctx, case)
    if monitor == "long_listing":
        from .. import longrun
        if "b" in case:
            return longrun.judge_carry_listing(ctx, "long_listing", "C14", case)
        return longrun.judge_node_listing(ctx, "long_listing", "C14", case)
    case.pop("sub", None), case.pop("index", None), case.pop("via", None), case.pop("interval", None), case.pop("looked_up_first", None)
    judge_triple(ctx, case)
