"""C08 - new wallets draw their full entropy from the operating system's CSPRNG."""
import os
import random
import re
import shutil
import subprocess
import sys
import tempfile
import time

from .. import inject
from ..core import REPO, VERIF
from ..ref import bip39 as rb39

PROP = "C08"
LEVEL = "exploration"
SHARDS = {"quick": 8, "thorough": 16}
TIMEOUT = {"quick": 900, "thorough": 7200}
THOROUGH_MULT = 20   # thorough budgets below are multiplied by this (sized for roughly five minutes on 16 cores)
REQUIRED = {"request_size": 50, "kernel_request_size": 5, "prng_reset": 50, "tape_replay": 50, "bit_variation": 5, "no_repeat": 5, "mixed_history": 20, "config_request_size": 90, "import_fault": 20, "concurrent_fresh": 40}
ANCHORS = ['bip39:mnemonic_from_entropy_bits', 'base_wallet:BaseWallet.new_wallet', 'base_wallet:BaseWallet.from_entropy_bits']
RULE = ("histories of consecutive new_wallet / mnemonic_from_entropy_bits calls over all five lengths in one process, "
        "interleaved with random.seed / random.random noise and wall-clock changes; four observers: in-process request size "
        "(os.urandom / random._urandom interposer), kernel request size (strace: getrandom + reads of /dev/(u)random between "
        "marks), tape replay (same tape + different PRNG seed => same mnemonic; different tape => different), PRNG reset "
        "(same seed twice => different mnemonic; random.getstate() untouched); per-bit variation + no repeats over K fresh "
        "mnemonics per length; distinct = distinct (monitor, case) digests incl. the decoded entropies"
        " EXTENSIONS: + entropy-door faults while the package is imported (child process), single-preemption sweep of two threads creating wallets with per-thread byte attribution, 2^20+2048 consecutive creations each compared with its own call's OS bytes")
LEVEL_TEXT = ("Executions of the real new-wallet path are observed at two boundaries (Python-level CSPRNG doors and the "
              "getrandom/read syscalls under strace) and by replaying chosen entropy tapes; the decoded entropy of K fresh "
              "mnemonics per length must vary in every bit and never repeat. Statistical by nature for the variation clause "
              "(false-alarm probability < 2^-50 per run); PRNG states are sampled.")
LEVEL_NOTE = ("Trusted: strace output, CPython's os.urandom -> getrandom mapping, reference BIP39 decoder. If in-process "
              "interposition sees too little, the kernel observer decides (code may legitimately read /dev/urandom directly).")
TECHNIQUE = "OS-entropy interposer + strace syscall monitor + tape replay + PRNG-reset history checker"
ASSUMPTIONS = ["strace available (ptrace permitted) for the kernel observer; otherwise that sub-monitor reports inconclusive when needed"]
LENGTHS = (12, 15, 18, 21, 24)
ENT = {12: 128, 15: 160, 18: 192, 21: 224, 24: 256}

CHILD = r'''
import os, sys
sys.path.insert(0, %(repo)r)
from btc_hd_wallet.base_wallet import BaseWallet
from btc_hd_wallet.paper_wallet import PaperWallet
from btc_hd_wallet.bip39 import mnemonic_from_entropy_bits
fd = os.open("/dev/null", os.O_WRONLY)
for L, ent in ((12,128),(15,160),(18,192),(21,224),(24,256)):
    for i in range(%(k)d):
        os.write(fd, b"VPMARK begin new_wallet %%d\n" %% L)
        BaseWallet.new_wallet(mnemonic_length=L)
        os.write(fd, b"VPMARK end\n")
        os.write(fd, b"VPMARK begin bits %%d\n" %% L)
        mnemonic_from_entropy_bits(entropy_bits=ent)
        os.write(fd, b"VPMARK end\n")
        os.write(fd, b"VPMARK begin paper_testnet %%d\n" %% L)
        PaperWallet.new_wallet(mnemonic_length=L, testnet=True, password="pw")
        os.write(fd, b"VPMARK end\n")
        os.write(fd, b"VPMARK begin base_testnet %%d\n" %% L)
        BaseWallet.from_entropy_bits(entropy_bits=ent, testnet=True)
        os.write(fd, b"VPMARK end\n")
'''


def strace_observe(k=2):
    """Run the child under strace; return list of (api, words, bytes_from_os) or None if strace is unusable."""
    if not shutil.which("strace"):
        return None, "strace not installed"
    d = tempfile.mkdtemp(prefix="vp-c08-")
    try:
        script = os.path.join(d, "child.py")
        open(script, "w").write(CHILD % {"repo": os.path.realpath(REPO), "k": k})
        out = os.path.join(d, "trace")
        env = dict(os.environ, PYTHONDONTWRITEBYTECODE="1")
        env.pop("PYTHONPATH", None)
        p = subprocess.run(["strace", "-f", "-e", "trace=getrandom,read,openat,open,write,close", "-s", "48", "-o", out,
                            sys.executable] + (["-O"] if sys.flags.optimize else []) + [script], capture_output=True, text=True, timeout=600, env=env)
        if p.returncode != 0 or not os.path.exists(out):
            return None, "strace failed rc=%s: %s" % (p.returncode, (p.stderr or "")[-300:])
        results = []
        cur = None
        rnd_fds = set()
        for line in open(out, errors="replace"):
            m = re.search(r'openat?\(.*"(/dev/u?random)".*\)\s*=\s*(\d+)', line)
            if m:
                rnd_fds.add(int(m.group(2)))
                continue
            m = re.search(r'close\((\d+)\)', line)
            if m and int(m.group(1)) in rnd_fds:
                rnd_fds.discard(int(m.group(1)))
                continue
            m = re.search(r'write\(\d+, "VPMARK begin (\w+) (\d+)', line)
            if m:
                cur = [m.group(1), int(m.group(2)), 0, []]
                continue
            if "VPMARK end" in line and cur is not None:
                results.append(tuple(cur))
                cur = None
                continue
            if cur is None:
                continue
            m = re.search(r'getrandom\(.*?,\s*(\d+),\s*([^)]*)\)\s*=\s*(\d+)', line)
            if m:
                cur[2] += int(m.group(3))
                cur[3].append(("getrandom", int(m.group(1)), m.group(2)))
                continue
            m = re.search(r'read\((\d+),.*\)\s*=\s*(\d+)', line)
            if m and int(m.group(1)) in rnd_fds:
                cur[2] += int(m.group(2))
                cur[3].append(("read-devrandom", int(m.group(2))))
        return results, None
    finally:
        shutil.rmtree(d, ignore_errors=True)


FAULT_CHILD = r'''
import json, os, random, sys
sys.path.insert(0, %(repo)r)
EXC = {"NotImplementedError": NotImplementedError, "OSError": OSError}[%(exc)r]
real_urandom = os.urandom
real_getrandom = getattr(os, "getrandom", None)
state = {"fail": True, "bytes": 0, "refused": 0}
def fake_urandom(n):
    if state["fail"]:
        state["refused"] += 1
        raise EXC("no OS randomness source (injected)")
    state["bytes"] += n
    return real_urandom(n)
def fake_getrandom(n, flags=0):
    if state["fail"]:
        state["refused"] += 1
        raise EXC("no OS randomness source (injected)")
    state["bytes"] += n
    return real_getrandom(n, flags)
os.urandom = fake_urandom
random._urandom = fake_urandom
if real_getrandom is not None:
    os.getrandom = fake_getrandom
out = {"import": "ok", "calls": [], "refused_during_import": 0}
try:
    import btc_hd_wallet.bip39 as b39
    from btc_hd_wallet.base_wallet import BaseWallet
    from btc_hd_wallet.paper_wallet import PaperWallet
except BaseException as e:
    out["import"] = "raised:" + type(e).__name__
    print(json.dumps(out)); sys.exit(0)
out["refused_during_import"] = state["refused"]
state["fail"] = %(still)r
ENT = {12: 128, 15: 160, 18: 192, 21: 224, 24: 256}
def call(api, L):
    if api == "new_wallet":
        return BaseWallet.new_wallet(mnemonic_length=L).mnemonic
    if api == "paper_new_wallet":
        return PaperWallet.new_wallet(mnemonic_length=L, testnet=True, password="pw").mnemonic
    if api == "from_entropy_bits":
        return BaseWallet.from_entropy_bits(entropy_bits=ENT[L]).mnemonic
    return b39.mnemonic_from_entropy_bits(entropy_bits=ENT[L])
for api in ("new_wallet", "paper_new_wallet", "from_entropy_bits", "bits"):
    for L in (12, 15, 18, 21, 24):
        rec = {"api": api, "words": L, "runs": []}
        for rep in range(2):
            random.seed(%(seed)d)
            state["bytes"] = 0
            try:
                mn = call(api, L)
                rec["runs"].append({"outcome": "wallet", "mnemonic": mn, "os_bytes": state["bytes"]})
            except BaseException as e:
                rec["runs"].append({"outcome": "raised:" + type(e).__name__, "os_bytes": state["bytes"]})
        out["calls"].append(rec)
print(json.dumps(out))
'''


def judge_import_fault(ctx, case):
    '''Fault at a particular point: the OS randomness doors (os.urandom, random._urandom, os.getrandom) refuse while the
    package is being IMPORTED (what a chroot without /dev/urandom does), then either keep refusing or recover.  Whatever
    the package set up at import time, a wallet handed out afterwards must be OS entropy: violation = a wallet that was
    returned although fewer than ENT/8 bytes came through the doors AND that repeats when the process-wide PRNG is reset
    to the same state (both clauses, so that code reading /dev/urandom directly is not blamed).'''
    d = tempfile.mkdtemp(prefix="vp-c08f-")
    try:
        script = os.path.join(d, "fault_child.py")
        open(script, "w").write(FAULT_CHILD % {"repo": os.path.realpath(REPO), "exc": case["exc"], "still": case["still_failing"], "seed": case["seed"]})
        env = dict(os.environ, PYTHONDONTWRITEBYTECODE="1", PYTHONHASHSEED="0")
        env.pop("PYTHONPATH", None)
        try:
            p = subprocess.run([sys.executable] + (["-O"] if sys.flags.optimize else []) + [script], capture_output=True, text=True, timeout=300, env=env)
        except subprocess.TimeoutExpired:
            ctx.note_inconclusive("import-fault child timed out (%s)" % case)
            return None
        try:
            import json as _json
            out = _json.loads(p.stdout.strip().splitlines()[-1])
        except Exception:  # noqa
            ctx.note_inconclusive("import-fault child produced no report rc=%s: %s" % (p.returncode, (p.stderr or "")[-300:]))
            return None
    finally:
        shutil.rmtree(d, ignore_errors=True)
    tag = "%s|%s" % (case["exc"], "permanent" if case["still_failing"] else "recovers")
    if out["import"] != "ok":
        # refusing to import without an entropy source is a refusal, not a wallet
        return ctx.judge("import_fault", True, case, "no wallet without OS entropy", out["import"], cls="importfault|%s|import-refused" % tag, outcome="import-refused")
    for rec in out["calls"]:
        need = ENT[rec["words"]] // 8
        runs = rec["runs"]
        wallets = [r for r in runs if r["outcome"] == "wallet"]
        starved = [r for r in wallets if r["os_bytes"] < need]
        repeats = len(wallets) == 2 and wallets[0]["mnemonic"] == wallets[1]["mnemonic"]
        ok = not (starved and repeats)
        outcome = "refused" if not wallets else ("os-entropy" if not starved else ("starved-but-varies" if ok else "prng-wallet"))
        ctx.judge("import_fault", ok, dict(case, api=rec["api"], words=rec["words"]),
                  "error, or a wallet backed by >= %d bytes from the OS that does not repeat after random.seed" % need,
                  [{k: r[k] for k in r} for r in runs], cls="importfault|%s|%s|%d" % (tag, rec["api"], rec["words"]), outcome=outcome,
                  mech="C08.import_fault.prng_wallet")
    ctx.extra["import_fault_refusals_during_import"] = ctx.extra.get("import_fault_refusals_during_import", 0) + out.get("refused_during_import", 0)


class ThreadTap:
    """os.urandom / random._urandom interposer that passes real bytes through and remembers WHICH thread got which bytes."""

    def __init__(self):
        self.served = []            # (thread ident, bytes)  (list.append is atomic)

    def __enter__(self):
        import threading
        real_os, real_rnd = os.urandom, random._urandom
        self._saved = (real_os, real_rnd)

        def door(real):
            def f(n):
                out = real(n)
                self.served.append((threading.get_ident(), out))
                return out
            return f
        os.urandom = door(real_os)
        random._urandom = door(real_rnd)
        return self

    def __exit__(self, *exc):
        os.urandom, random._urandom = self._saved
        return False

    def of(self, ident):
        return b"".join(b for i, b in self.served if i == ident)


PREEMPT_FILES = ("bip39", "base_wallet", "paper_wallet")


def judge_concurrent(ctx, case):
    """Two threads create fresh wallets; thread A is parked at its k-th statement inside bip39.py / base_wallet.py, thread B
    creates its wallet to completion, A resumes (k sweeps every statement boundary A executes: each run is one CHOSEN
    interleaving).  Each wallet must be exactly what the same code makes, single-threaded, of the OS bytes that were served
    to ITS OWN thread (replayed from a tape) - entropy that is zeroed, taken over from, or shared with the other thread
    shows as a mismatch - and the two wallets must differ."""
    import threading
    api_a, api_b, La, Lb = case["api_a"], case["api_b"], case["words_a"], case["words_b"]
    idents = {}

    def mk(who, api, L):
        def f():
            idents[who] = threading.get_ident()
            return _call(api, L)
        return f
    with ThreadTap() as tap0:
        r0 = inject.run_preempted(mk("a", api_a, La), None, None, PREEMPT_FILES)
    if not tap0.served:
        ctx.reach("concurrent_not_applicable")      # code bypasses the Python-level doors: nothing to attribute
        return None
    n_lines = r0["count"]
    stride = case.get("stride", 1)
    points = 0
    for k in range(1 + case.get("offset", 0) % stride, n_lines + 1, stride):
        idents.clear()
        with ThreadTap() as tap:
            r = inject.run_preempted(mk("a", api_a, La), mk("b", api_b, Lb), k, PREEMPT_FILES)
        c = dict(case, preempt_at_statement=k, site=r["site"])
        if not r["finished"]:
            ctx.note_inconclusive("concurrent wallet creation %s did not finish" % c)
            return None
        points += 1
        for who, e in r["errors"]:
            ctx.judge("concurrent_fresh", False, dict(c, thread=who), "wallet", e, cls="conc|raised", mech="C08.concurrent.raised")
        if r["errors"]:
            continue
        bad = []
        for who, api, L in (("a", api_a, La), ("b", api_b, Lb)):
            mine = tap.of(idents.get(who))
            with inject.EntropyTap("tape", tape=mine + b"\x00" * 0) as t2:
                try:
                    want = _call(api, L)
                except RuntimeError:
                    want = None
            if want is None:
                bad.append(("thread_%s_consumed_fewer_own_bytes_than_alone" % who, "replayable", len(mine)))
            elif r[who] != want:
                bad.append(("thread_%s_wallet_is_not_made_of_its_own_os_bytes" % who, want, r[who]))
        if r["a"] == r["b"]:
            bad.append(("two_fresh_wallets_coincide", "different", r["a"]))
        ctx.judge("concurrent_fresh", not bad, c, "each wallet = f(its own OS bytes); wallets differ", bad[:2],
                  cls="conc|%s/%d|%s/%d" % (api_a, La, api_b, Lb), mech="C08.concurrent." + (bad[0][0] if bad else ""))
    ctx.extra["concurrent_interleavings_enumerated"] = ctx.extra.get("concurrent_interleavings_enumerated", 0) + points


def judge_many_creations(ctx, case):
    """A long-lived process: N (> 2^20) consecutive fresh mnemonics; EVERY one must be the encoding of the OS bytes served
    during its own call, and none may repeat (a registry / pool / counter with a capacity shows only beyond it)."""
    import btc_hd_wallet.bip39 as b39
    L, N = case["words"], case["n"]
    need = ENT[L] // 8
    served = []
    real_os, real_rnd = os.urandom, random._urandom

    def door(real):
        def f(n):
            out = real(n)
            served.append(out)
            return out
        return f
    os.urandom, random._urandom = door(real_os), door(real_rnd)
    seen = set()
    bad = []
    not_applicable = 0
    try:
        t_start = time.time()
        for i in range(N):
            if i % 4096 == 0 and time.time() - t_start > (120 if ctx.tier == "quick" else 1500):
                ctx.extra["many_creations_cut_short_by_time_budget"] = i
                N = i
                break
            del served[:]
            mn = b39.mnemonic_from_entropy_bits(entropy_bits=ENT[L])
            mine = b"".join(served)
            if not mine:
                not_applicable += 1
                if not_applicable > 3:
                    break
                continue
            if i < 64 or i % 997 == 0 or i >= N - 4096 or (i & (i - 1)) == 0 or ((i - 1) & (i - 2)) == 0:
                want = rb39.mnemonic(mine[:need]) if len(mine) >= need else None
                if want is not None and mn != want and not any(rb39.mnemonic(mine[o:o + need]) == mn for o in range(1, max(1, len(mine) - need + 1))):
                    bad.append(("call_%d_is_not_made_of_its_own_os_bytes" % i, want, mn))
                    break
            h = hash(mn)
            if h in seen and mn in case.setdefault("_dups", {}):
                bad.append(("call_%d_repeats_an_earlier_mnemonic" % i, "fresh", mn))
                break
            if h in seen:
                case["_dups"][mn] = i
            seen.add(h)
    finally:
        os.urandom, random._urandom = real_os, real_rnd
    case.pop("_dups", None)
    if not_applicable > 3:
        ctx.reach("many_creations_not_applicable")
        return None
    ctx.extra["consecutive_creations_in_one_process"] = max(ctx.extra.get("consecutive_creations_in_one_process", 0), N)
    return ctx.judge("many_creations", not bad, case, "every mnemonic = encoding of its own call's OS bytes; no repeats", bad[:2],
                     cls="many|%d|n%d" % (L, N), mech="C08.many_creations." + (bad[0][0].split("_", 2)[2] if bad else ""))


def _call(api, L):
    from btc_hd_wallet.base_wallet import BaseWallet
    import btc_hd_wallet.bip39 as b39
    if api == "new_wallet":
        return BaseWallet.new_wallet(mnemonic_length=L).mnemonic
    if api == "from_entropy_bits":
        return BaseWallet.from_entropy_bits(entropy_bits=ENT[L]).mnemonic
    return b39.mnemonic_from_entropy_bits(entropy_bits=ENT[L])


def _decode(mn):
    e, ok = rb39.decode(mn.split(" "))
    return e, ok


_kernel_cache = {}


def kernel_bytes(api, L):
    if "res" not in _kernel_cache:
        _kernel_cache["res"] = strace_observe(k=1)
    res, err = _kernel_cache["res"]
    if res is None:
        return None, err
    key = "new_wallet" if api != "bits" else "bits"
    if api in ("paper_testnet", "base_testnet"):
        key = api
    vals = [b for a, w, b, _c in res if a == key and w == L]
    return (min(vals) if vals else None), None


def judge_request_size(ctx, case):
    api, L = case["api"], case["words"]
    need = ENT[L] // 8
    with inject.EntropyTap("observe") as tap:
        mn = _call(api, L)
    e, ok = _decode(mn)
    got = tap.total
    if got >= need:
        return ctx.judge("request_size", True, case, ">= %d bytes" % need, {"requested": tap.requests}, cls="%s|%d" % (api, L), outcome="inproc")
    kb, err = kernel_bytes(api, L)
    if kb is None:
        ctx.note_inconclusive("in-process interposer saw %d < %d bytes for %s/%d and the kernel observer is unavailable (%s)" % (got, need, api, L, err))
        return None
    return ctx.judge("request_size", kb >= need, case, ">= %d bytes from the OS" % need,
                     {"python_level_requests": tap.requests, "kernel_bytes": kb}, cls="%s|%d" % (api, L), outcome="kernel",
                     mech="C08.request_size.too_small")


def judge_kernel(ctx, k):
    res, err = strace_observe(k=k)
    if res is None:
        ctx.extra["strace"] = "unavailable: %s" % err
        ctx.note_inconclusive("kernel observer unavailable: %s" % err)
        return
    ctx.extra["strace"] = "ok"
    sizes = {}
    for api, L, nbytes, calls in res:
        need = ENT[L] // 8
        sizes.setdefault("%s/%d" % (api, L), []).append(nbytes)
        ctx.judge("kernel_request_size", nbytes >= need, {"api": api, "words": L, "syscalls": calls}, ">= %d" % need, nbytes,
                  cls="kernel|%s|%d" % (api, L), mech="C08.kernel_request_size.too_small")
    ctx.extra["kernel_bytes_seen"] = {k2: sorted(set(v)) for k2, v in sizes.items()}


def judge_prng_reset(ctx, case):
    """random.seed(s) twice => results differ; global PRNG state untouched."""
    api, L, s = case["api"], case["words"], case["seed"]
    random.seed(s)
    st0 = random.getstate()
    a = _call(api, L)
    st1 = random.getstate()
    random.seed(s)
    b = _call(api, L)
    bad = []
    if a == b:
        bad.append(("repeats_after_reseed", "different mnemonics", a))
    if st0 != st1:
        bad.append(("global_prng_consumed", "state unchanged", "state advanced"))
    return ctx.judge("prng_reset", not bad, case, None, bad, cls="reset|%s|%d" % (api, L), mech="C08.prng_reset." + (bad[0][0] if bad else ""))


def judge_tape(ctx, case):
    """Same tape, different PRNG seeds and different wall clock => same
    mnemonic = encoding of the tape bytes; different tape => different."""
    api, L = case["api"], case["words"]
    need = ENT[L] // 8
    tape1, tape2 = case["tape1"], case["tape2"]
    outs = []
    seen_requests = 0
    real_time = time.time
    try:
        for tape, seed, tshift in ((tape1, 1, 0.0), (tape1, 2, 12345.678), (tape2, 1, 0.0)):
            random.seed(seed)
            time.time = lambda _s=tshift: real_time() + _s
            with inject.EntropyTap("tape", tape=tape * 4) as tap:
                try:
                    outs.append(_call(api, L))
                except RuntimeError as e:
                    outs.append("tape exhausted: %s" % e)
            seen_requests += len(tap.requests)
    finally:
        time.time = real_time
    if seen_requests == 0:
        # code does not go through the Python-level doors: tape clause not applicable here,
        # the kernel observer + prng_reset decide
        ctx.reach("tape_not_applicable")
        return None
    bad = []
    if outs[0] != outs[1]:
        bad.append(("depends_on_prng_or_clock", outs[0], outs[1]))
    if outs[0] == outs[2]:
        bad.append(("ignores_os_entropy", "different mnemonics for different tapes", outs[0]))
    want = "a function of the OS bytes only (tape2 differs from tape1 in exactly one bit: msb or lsb of the request)"
    return ctx.judge("tape_replay", not bad, case, want, bad, cls="tape|%s|%d|%s" % (api, L, case.get("ttag", "")),
                     mech="C08.tape_replay." + (bad[0][0] if bad else ""))


def judge_variation(ctx, L, K, apis):
    ent_bits = ENT[L]
    ones = 0
    zeros = 0
    seen = set()
    reps = 0
    full = (1 << ent_bits) - 1
    for j in range(K):
        api = apis[j % len(apis)]
        if j % 7 == 3:
            random.seed(42)          # hostile history: reset the seedable PRNG between calls
        elif j % 7 == 5:
            random.random()
        mn = _call(api, L)
        e, ok = _decode(mn)
        v = int.from_bytes(e, "big")
        if e in seen:
            reps += 1
        seen.add(e)
        ones |= v
        zeros |= (~v) & full
        ctx.digests.add("ent:" + e.hex()[:12])
    stuck1 = [ent_bits - 1 - b for b in range(ent_bits) if not (zeros >> b) & 1]
    stuck0 = [ent_bits - 1 - b for b in range(ent_bits) if not (ones >> b) & 1]
    ctx.judge("bit_variation", not stuck0 and not stuck1, {"words": L, "K": K}, "every bit position takes both values",
              {"never_one(msb=0)": stuck0[:16], "never_zero(msb=0)": stuck1[:16]}, cls="var|%d" % L, mech="C08.bit_variation.stuck_bits")
    ctx.judge("no_repeat", reps == 0, {"words": L, "K": K}, "all distinct", {"repeats": reps}, cls="rep|%d" % L, mech="C08.no_repeat")
    ctx.extra["fresh_entropies_decoded"] = ctx.extra.get("fresh_entropies_decoded", 0) + K


def judge_config(ctx, case):
    """Configuration cross-product: wallet class x network x length x passphrase x entry point (incl. the CLI's `new`
    executed in-process): every cell must pull >= ENT/8 bytes from the OS for the wallet it creates."""
    import contextlib
    import io
    import runpy
    from btc_hd_wallet.base_wallet import BaseWallet
    from btc_hd_wallet.paper_wallet import PaperWallet
    L, tn, pw, entry = case["words"], case["testnet"], case["password"], case["entry"]
    need = ENT[L] // 8
    cls_ = PaperWallet if case["cls"] == "Paper" else BaseWallet
    random.seed(99)
    with inject.EntropyTap("observe") as tap:
        if entry == "new_wallet":
            cls_.new_wallet(mnemonic_length=L, password=pw, testnet=tn)
        elif entry == "from_entropy_bits":
            cls_.from_entropy_bits(entropy_bits=ENT[L], password=pw, testnet=tn)
        else:
            argv = ["--interval", "0", "0"] + (["--testnet"] if tn else []) + ["new", "--mnemonic-len", str(L)] + (["--password", pw] if pw else [])
            old = sys.argv
            sys.argv = ["__main__.py"] + argv
            try:
                with contextlib.redirect_stdout(io.StringIO()), contextlib.redirect_stderr(io.StringIO()):
                    try:
                        runpy.run_module("btc_hd_wallet", run_name="__main__", alter_sys=False)
                    except SystemExit:
                        pass
            finally:
                sys.argv = old
    got = tap.total
    cls = "cfg|%s|%s|%d|%s|%s" % (case["cls"] if entry != "cli" else "cli", "test" if tn else "main", L, "pw" if pw else "nopw", entry)
    if got >= need:
        return ctx.judge("config_request_size", True, case, ">= %d" % need, got, cls=cls, outcome="inproc")
    if not tap.requests:
        # nothing went through the Python-level doors: only the kernel observer could tell (it covers Base/Paper x testnet)
        kb, err = kernel_bytes("paper_testnet" if (case["cls"] == "Paper" and tn) else ("base_testnet" if tn else "new_wallet"), L)
        if kb is None:
            ctx.note_inconclusive("configuration %s bypasses the Python-level CSPRNG doors and the kernel observer is unavailable (%s)" % (cls, err))
            return None
        return ctx.judge("config_request_size", kb >= need, case, ">= %d" % need, {"kernel_bytes": kb}, cls=cls, outcome="kernel", mech="C08.config.too_small")
    return ctx.judge("config_request_size", False, case, ">= %d bytes from the OS" % need, {"requested": tap.requests}, cls=cls, mech="C08.config.too_small")


def judge_mixed_history(ctx, case):
    """A history of fresh mnemonics of MIXED lengths in one process: no two of them may share any 8-byte window of
    entropy (a pool / buffer that hands the same OS bytes out twice shows up here even when whole entropies differ),
    and every call must still pull its own bytes from the OS."""
    seen = {}
    bad = []
    short = 0
    for step, (api, L) in enumerate(case["calls"]):
        if step % 5 == 2:
            random.seed(7)
        with inject.EntropyTap("observe") as tap:
            mn = _call(api, L)
        e, ok = _decode(mn)
        if tap.requests and tap.total < ENT[L] // 8:
            short += 1
        for off in range(0, len(e) - 7):
            w = e[off:off + 8]
            if w in seen and seen[w] != step:
                bad.append(("window_reused", "step %d offset %d" % (seen[w], off), "step %d (%s/%d): %s" % (step, api, L, w.hex())))
                break
            seen[w] = step
    if short:
        bad.append(("calls_served_without_enough_os_bytes", 0, short))
    return ctx.judge("mixed_history", not bad, case, "pairwise disjoint entropy windows", bad[:3], cls="mixed|%d" % len(case["calls"]),
                     mech="C08.mixed_history." + (bad[0][0] if bad else ""))


def run(ctx):
    rnd = ctx.rnd
    apis = ["new_wallet", "bits", "from_entropy_bits"]
    if ctx.shard == 0:
        judge_kernel(ctx, k=2 if not ctx.thorough else 20)
    conc = [("bits", "bits", 12, 12), ("bits", "bits", 24, 12), ("bits", "bits", 12, 24), ("bits", "new_wallet", 24, 24), ("new_wallet", "bits", 15, 18),
            ("from_entropy_bits", "from_entropy_bits", 21, 21), ("new_wallet", "new_wallet", 12, 12), ("bits", "from_entropy_bits", 18, 15)]
    for ci, (aa, ab, la, lb) in enumerate(conc * (1 if not ctx.thorough else 6)):
        if ctx.mine_once(ci):
            judge_concurrent(ctx, {"api_a": aa, "api_b": ab, "words_a": la, "words_b": lb, "stride": 1 if aa == "bits" or ctx.thorough else 3,
                                   "offset": rnd.randrange(0, 3)})
    if ctx.mine_once(3):
        judge_many_creations(ctx, {"words": (12, 24)[ctx.seed % 2], "n": (1 << 20) + 2048 if not ctx.thorough else (1 << 22) + 2048})
    fault_cells = [(e, st) for e in ("NotImplementedError", "OSError") for st in (True, False)]
    for fi, (e, st) in enumerate(fault_cells):
        if ctx.mine_once(fi + 1):
            for rep in range(1 if not ctx.thorough else 3):
                judge_import_fault(ctx, {"exc": e, "still_failing": st, "seed": rnd.randrange(0, 1 << 30)})
    for j in range(ctx.scale(120, 8000)):
        judge_request_size(ctx, {"api": apis[j % 3], "words": LENGTHS[(j // 3) % 5], "n": j})
    for j in range(ctx.scale(120, 6000)):
        judge_prng_reset(ctx, {"api": apis[j % 3], "words": LENGTHS[(j // 3) % 5], "seed": rnd.randrange(0, 1 << 30)})
    for j in range(ctx.scale(120, 6000)):
        L = LENGTHS[(j // 3) % 5]
        need = ENT[L] // 8
        r = j % 6
        if r == 0:
            t1, ttag = b"\x00" * need, "zeros"
        elif r == 1:
            t1, ttag = b"\xff" * need, "ones"
        elif r == 2:
            t1, ttag = b"\x80" + b"\x00" * (need - 1), "msb-only"
        elif r == 3:
            t1, ttag = b"\x00" * (need - 1) + b"\x01", "lsb-only"
        else:
            t1, ttag = rnd.getrandbits(8 * need).to_bytes(need, "big"), "random"
        t2 = bytes([t1[0] ^ 0x80]) + t1[1:] if j % 2 else t1[:-1] + bytes([t1[-1] ^ 1])
        judge_tape(ctx, {"api": apis[j % 3], "words": L, "tape1": t1, "tape2": t2, "ttag": ttag})
    cells = [(c, t, L, p, e) for c in ("Base", "Paper") for t in (False, True) for L in LENGTHS for p in ("", "pass phrase")
             for e in ("new_wallet", "from_entropy_bits")] + [("Paper", t, L, p, "cli") for t in (False, True) for L in LENGTHS for p in ("", "x")]
    for rep in range(1 if not ctx.thorough else 20):
        for ci, (c, t, L, p, e) in enumerate(cells):
            if ctx.mine(ci + rep):
                judge_config(ctx, {"cls": c, "testnet": t, "words": L, "password": p, "entry": e})
    for _ in range(ctx.scale(40, 2000)):
        n_calls = rnd.choice([4, 6, 9, 17, 33])
        calls = [(rnd.choice(["bits", "bits", "new_wallet"]), rnd.choice(LENGTHS)) for _ in range(n_calls)]
        if rnd.random() < 0.5:
            # shapes that drain power-of-two sized buffers exactly: 24,24 / 12x4 / 12,12,24 / 24,12,12 ...
            pat = rnd.choice([[24, 24, 24, 24], [12, 12, 12, 12, 12], [12, 12, 24, 24], [24, 12, 12, 12], [18, 18, 18, 18, 18, 18, 18, 18, 18]])
            calls = [("bits", L) for L in pat] + calls[:3]
        judge_mixed_history(ctx, {"calls": calls})
    K = 96 if not ctx.thorough else 2000
    for L in LENGTHS:
        judge_variation(ctx, L, K, ["bits", "bits", "bits", "new_wallet"] if not ctx.thorough else ["bits"] * 9 + ["new_wallet"])


def replay(ctx, monitor, case):
    if monitor == "request_size":
        judge_request_size(ctx, case)
    elif monitor == "prng_reset":
        judge_prng_reset(ctx, case)
    elif monitor == "tape_replay":
        judge_tape(ctx, case)
    elif monitor == "config_request_size":
        judge_config(ctx, case)
    elif monitor == "mixed_history":
        case["calls"] = [tuple(c) for c in case["calls"]]
        judge_mixed_history(ctx, case)
    elif monitor == "kernel_request_size":
        judge_kernel(ctx, 2)
    elif monitor == "concurrent_fresh":
        for k_ in ("preempt_at_statement", "site", "thread"):
            case.pop(k_, None)
        judge_concurrent(ctx, case)
    elif monitor == "many_creations":
        judge_many_creations(ctx, case)
    elif monitor == "import_fault":
        case.pop("api", None)
        case.pop("words", None)
        judge_import_fault(ctx, case)
    else:
        judge_variation(ctx, case["words"], case["K"], ["bits"])
