"""C07 - extended keys round-trip through serialisation for all fields and 12 versions."""
from io import BytesIO

from .. import gen, bridge
from ..ref import bip32 as rb32, secp, base58 as rb58

from ..core import refused

PROP = "C07"
LEVEL = "exploration"
SHARDS = {"quick": 8, "thorough": 16}
TIMEOUT = {"quick": 900, "thorough": 7200}
THOROUGH_MULT = 6   # thorough budgets below are multiplied by this (sized for roughly five minutes on 16 cores)
REQUIRED = {"roundtrip": 1500, "serialize": 300, "version_table": 24, "unknown_version": 100, "from_extended_key": 100}
ANCHORS = ['bip32:PubKeyNode._parse', 'bip32:PubKeyNode._serialize', 'wallet_utils:Version.parse', 'wallet_utils:Version.__int__', 'base_wallet:BaseWallet.from_extended_key']
RULE = ("BIP32-valid 78-byte payloads (depth 0 => fp=index=0; depth 1..255 => any fp/index/chain; scalar classes incl. "
        "leading zeros; points of both parities incl. x with leading zero bytes) x ALL 12 version constants (exhaustive) x 3 "
        "input forms x {Pub,Prv} node class; version table checked exhaustively in both directions; unknown versions = every "
        "constant +-1, single bit flips of every constant, random 32-bit values; distinct = distinct (monitor, case) digests"
        " EXTENSIONS: + streams at an offset / holding several records, constructor-built public nodes from uncompressed / hybrid / raw keys, attribute edits on returned Version objects, list edits on returned version lists, version neighbours, enumerated scalar corners, a registry of foreign real-world version prefixes and every harvested 32-bit constant as unknown versions, keys whose Base58 text spells another version's prefix (searched per version)")
LEVEL_TEXT = ("Every extended-key string emitted by the real serialisers is decoded by an independent Base58Check decoder "
              "and compared byte-for-byte with the BIP32 layout of the node's fields; every parse (str/bytes/stream) is "
              "compared with the reference fields, parsed_version, equality and identical 111-char re-serialisation; public "
              "serialisations are scanned for the private scalar; the 12-entry version table is checked exhaustively.")
LEVEL_NOTE = "Trusted: reference Base58Check + BIP32 layout. Payloads that are not BIP32-valid (depth 0 with non-zero fp/index) are not generated."
TECHNIQUE = "runtime oracle on real parse/serialise calls with independent decoder; exhaustive version-table enumeration"
ASSUMPTIONS = ["ecdsa fallback backend"]
ALL_VERSIONS = sorted(rb32.SLIP132_INV)


FOREIGN_VERSIONS = [0x0295b43f, 0x0295b005, 0x02aa7ed3, 0x02aa7a99, 0x024289ef, 0x024285b5, 0x02575483, 0x02575048,   # Ypub Yprv Zpub Zprv Upub Uprv Vpub Vprv
                    0x019da462, 0x019d9cfe, 0x01b26ef6, 0x01b26792, 0x0436f6e1, 0x0436ef7d,                             # Ltub Ltpv Mtub Mtpv ttub ttpv
                    0x02facafd, 0x02fac398, 0x0488b21e ^ 0x20000000, 0x043587cf ^ 0x20000000]                           # dgub dgpv, case-flipped first letter


_B58 = "123456789ABCDEFGHJKLMNPQRSTUVWXYZabcdefghijkmnopqrstuvwxyz"


def _search_text(payload):
    import hashlib
    d = payload + hashlib.sha256(hashlib.sha256(payload).digest()).digest()[:4]
    n_, out = int.from_bytes(d, "big"), []
    while n_:
        n_, r_ = divmod(n_, 58)
        out.append(_B58[r_])
    return "1" * (len(d) - len(d.lstrip(b"\x00"))) + "".join(reversed(out))


def gen_xkey(rnd, lzx):
    if lzx and rnd.random() < 0.15:
        k, ktag = rnd.choice(lzx), "K:x-lz"
    else:
        ktag, k = gen.scalar(rnd)
    ctag, c = gen.chain_code(rnd)
    r = rnd.random()
    d = 0 if r < 0.2 else (255 if r < 0.3 else (1 if r < 0.4 else rnd.randrange(1, 256)))
    if d == 0:
        idx, pfp = 0, b"\x00" * 4
    else:
        idx = gen.index(rnd)[1]
        pfp = rnd.choice([gen.rbytes(rnd, 4), b"\x00\x00\x00\x00", b"\xff\xff\xff\xff", b"\x00" + gen.rbytes(rnd, 3)])
    return {"k": k, "c": c, "depth": d, "pindex": idx, "pfp": pfp, "ktag": ktag, "ctag": ctag}


def _form(payload, form):
    if form == "str":
        return rb58.encode_check(payload)
    if form == "bytes":
        return bytes(payload)
    if form == "stream-offset":
        # the record sits behind a header; the stream is positioned ON the record (a stream is read from where it stands)
        st = BytesIO(b"\x04\x88\xad\xe4HDR" + bytes(payload) + b"trailer")
        st.seek(7)
        return st
    return BytesIO(bytes(payload))


def judge_roundtrip(ctx, case):
    from btc_hd_wallet.bip32 import PrvKeyNode, PubKeyNode
    xk = bridge.xkey_from_case(case)
    ver = case["version"]
    typ, net, purpose = rb32.SLIP132_INV[ver]
    private = typ == "prv"
    tn = net == "test"
    payload = xk.payload(ver, private)
    S = rb58.encode_check(payload)
    cls_ = PrvKeyNode if private else PubKeyNode
    bad = []
    nodes = {}
    for form in ("str", "bytes", "stream", "stream-offset"):
        try:
            nodes[form] = cls_.parse(_form(payload, form), testnet=tn)
        except Exception as e:  # noqa
            bad.append(("parse.%s.raised" % form, "node", e))
    if not bad:
        # several records in ONE stream, read one after the other: the second parse must yield the second record
        try:
            other = dict(case, depth=(case["depth"] + 1) % 256, pindex=case["pindex"] ^ 0x80000001, c=case["c"][::-1])
            if other["depth"] == 0:
                other.update(depth=1)
            if other["pfp"] == b"\x00" * 4:
                other["pfp"] = b"\x01\x02\x03\x04"
            pay2 = bridge.xkey_from_case(other).payload(ver, private)
            st = BytesIO(pay2 + bytes(payload) + pay2)
            cls_.parse(st, testnet=tn)
            nodes["stream-second"] = cls_.parse(st, testnet=tn)
        except Exception as e:  # noqa
            bad.append(("parse.stream-second.raised", "node", e))
    if not bad:
        for form, node in nodes.items():
            b = bridge.compare_node(node, xk, tn, private)
            if b:
                bad.append(("parse.%s.%s" % (form, b[0][0]), b[0][1], b[0][2]))
            if getattr(node, "parsed_version", ver) != ver:
                bad.append(("parse.%s.parsed_version" % form, ver, node.parsed_version))
            try:
                out = node.extended_private_key(version=ver) if private else node.extended_public_key(version=ver)
            except Exception as e:  # noqa
                out = e
            if out != S:
                bad.append(("reserialize.%s" % form, S, out))
            elif len(out) != 111:
                bad.append(("length", 111, len(out)))
        if not (nodes["str"] == nodes["bytes"] == nodes["stream"] == nodes["stream-offset"] == nodes["stream-second"]):
            bad.append(("forms_equal", True, False))
        # equality must discriminate every serialised field: change exactly one
        fields = ["c", "k"] + (["pindex", "pfp", "depth"] if case["depth"] else [])
        for fld in fields:
            other = dict(case)
            if fld == "c":
                other["c"] = case["c"][:-1] + bytes([case["c"][-1] ^ 1])
            elif fld == "k":
                other["k"] = case["k"] + 1 if case["k"] + 1 < secp.N else case["k"] - 1
            elif fld == "pindex":
                other["pindex"] = case["pindex"] ^ 1
            elif fld == "pfp":
                other["pfp"] = case["pfp"][:-1] + bytes([case["pfp"][-1] ^ 1])
            else:
                other["depth"] = case["depth"] - 1 if case["depth"] > 1 else 2
            n2 = cls_.parse(_form(bridge.xkey_from_case(other).payload(ver, private), "bytes"), testnet=tn)
            if nodes["str"] == n2:
                bad.append(("eq_ignores_" + fld, False, True))
        if nodes["str"] == cls_.parse(_form(payload, "bytes"), testnet=not tn):
            bad.append(("eq_ignores_testnet", False, True))
        if private:
            # public serialisation of a private node: compressed point only, scalar nowhere
            pubv = rb32.SLIP132[("pub", net, purpose)]
            try:
                ps = nodes["str"].extended_public_key(version=pubv)
                kind, raw = rb58.classify_check(ps)
                if kind != "valid" or len(raw) != 78:
                    bad.append(("pub_of_prv.decode", "78 bytes", kind))
                else:
                    if raw != xk.payload(pubv, False):
                        bad.append(("pub_of_prv.payload", xk.payload(pubv, False), raw))
                    # (a scalar like 2 with an all-zero chain code "occurs" in the legitimate payload by coincidence:
                    #  31 zero bytes of the chain code + the 02 parity byte; only occurrences absent from the reference payload count)
                    if rb32.ser256(xk.k) in raw and rb32.ser256(xk.k) not in xk.payload(pubv, False):
                        bad.append(("pub_of_prv.leaks_scalar", "absent", "present"))
                    if raw[45] not in (2, 3):
                        bad.append(("pub_of_prv.key_prefix", "02/03", raw[45]))
            except Exception as e:  # noqa
                bad.append(("pub_of_prv.raised", None, e))
    return ctx.judge("roundtrip", not bad, case, {"string": S}, bad,
                     cls="%s%s%d|d%s|%s" % (typ, net, purpose, "0" if xk.depth == 0 else ("255" if xk.depth == 255 else "n"), case.get("ktag", "")),
                     mech="C07.roundtrip." + (bad[0][0] if bad else ""))


def judge_serialize(ctx, case):
    """Constructor-built node -> all versions -> independent decode."""
    xk = bridge.xkey_from_case(case)
    tn = case["testnet"]
    bad = []
    node = bridge.mk_node(xk, tn, "ctor", public=case.get("public", False))
    private = not case.get("public", False)
    kf = case.get("ctor_key_form")
    if kf and not private:
        # a public node built by the CONSTRUCTOR from another SEC serialisation of the same point (uncompressed, and - with the
        # ecdsa backend - hybrid / raw): what it prints must still carry the compressed key only.  (Only printing is judged
        # here; a constructor that refuses the form is fine.)
        from btc_hd_wallet.bip32 import PubKeyNode
        x, y = xk.K[0].to_bytes(32, "big"), xk.K[1].to_bytes(32, "big")
        enc = {"uncompressed": b"\x04" + x + y, "hybrid": bytes([6 + (xk.K[1] & 1)]) + x + y, "raw64": x + y}[kf]
        try:
            node = PubKeyNode(key=enc, chain_code=xk.c, index=xk.index, depth=xk.depth, testnet=tn, parent_fingerprint=xk.pfp)
            node.extended_public_key()
        except Exception as e:  # noqa
            return ctx.judge("serialize", True, case, "node", e, cls="ser|ctor-%s|refused" % kf, outcome="form-refused")
    for (typ, net, purpose), ver in rb32.SLIP132.items():
        if typ == "prv" and not private:
            continue
        try:
            s = node.extended_private_key(version=ver) if typ == "prv" else node.extended_public_key(version=ver)
        except Exception as e:  # noqa
            bad.append(("raised.%s" % typ, None, e))
            continue
        kind, raw = rb58.classify_check(s)
        want = xk.payload(ver, typ == "prv")
        if kind != "valid" or raw != want:
            bad.append(("payload.%s%s%d" % (typ, net, purpose), want, raw if kind == "valid" else kind))
        if len(s) != 111 or not s.startswith(rb32.spelled_prefix(typ, net, purpose)):
            bad.append(("spelling.%s%s%d" % (typ, net, purpose), rb32.spelled_prefix(typ, net, purpose), s[:6]))
        if typ == "pub" and private and rb32.ser256(xk.k) in (raw or b"") and rb32.ser256(xk.k) not in want:
            bad.append(("leaks_scalar", "absent", "present"))
    # the same node object asked again for every flavour in another order: each answer must still be for the version asked
    items = sorted(rb32.SLIP132.items(), key=lambda kv: (kv[1] * 7919) % 104729)
    for (typ, net, purpose), ver in items:
        if typ == "prv" and not private:
            continue
        try:
            s2 = node.extended_private_key(version=ver) if typ == "prv" else node.extended_public_key(version=ver)
            if rb58.classify_check(s2) != ("valid", xk.payload(ver, typ == "prv")):
                bad.append(("second_pass.%s%s%d" % (typ, net, purpose), ver, s2[:8]))
        except Exception as e:  # noqa
            bad.append(("second_pass.raised", None, e))
    # default version follows the node's network
    try:
        dv = rb58.decode_check(node.extended_public_key())[:4]
        if int.from_bytes(dv, "big") != rb32.version_for("pub", tn, 44):
            bad.append(("default_pub_version", rb32.version_for("pub", tn, 44), dv))
        if private:
            dv = rb58.decode_check(node.extended_private_key())[:4]
            if int.from_bytes(dv, "big") != rb32.version_for("prv", tn, 44):
                bad.append(("default_prv_version", rb32.version_for("prv", tn, 44), dv))
    except Exception as e:  # noqa
        bad.append(("default.raised", None, e))
    if xk.depth == 0:
        raw = rb58.decode_check(node.extended_public_key())
        if raw[4] != 0 or raw[5:9] != b"\x00" * 4 or raw[9:13] != b"\x00" * 4:
            bad.append(("master_not_zero", "depth/fp/index zero", raw[4:13]))
    return ctx.judge("serialize", not bad, case, None, bad, cls="ser|%s|d%s" % ("pub" if case.get("public") else "prv", "0" if xk.depth == 0 else "n"),
                     mech="C07.serialize." + (bad[0][0].split(".")[0] if bad else ""))


def judge_version_table(ctx):
    from btc_hd_wallet.wallet_utils import Version, Key, Bip
    bipnum = {44: Bip.BIP44, 49: Bip.BIP49, 84: Bip.BIP84}
    for (typ, net, purpose), ver in sorted(rb32.SLIP132.items()):
        bad = []
        try:
            v = Version.parse(version_int=ver)
            got = ("prv" if v.key_type == Key.PRV else "pub", "test" if v.testnet else "main", v.bip_type)
            if got != (typ, net, bipnum[purpose]):
                bad.append(("parse", (typ, net, purpose), (got[0], got[1], str(got[2]))))
            if int(v) != ver:
                bad.append(("parse_int", ver, int(v)))
        except Exception as e:  # noqa
            bad.append(("parse.raised", None, e))
        try:
            v2 = Version(key_type=(Key.PRV if typ == "prv" else Key.PUB).value, bip=bipnum[purpose].value, testnet=(net == "test"))
            if int(v2) != ver:
                bad.append(("int", ver, int(v2)))
        except Exception as e:  # noqa
            bad.append(("int.raised", None, e))
        ctx.judge("version_table", not bad, {"version": ver, "triple": [typ, net, purpose]}, ver, bad,
                  cls="%s%s%d" % (typ, net, purpose), mech="C07.version_table." + (bad[0][0] if bad else ""))
        ctx.judge("version_table", True, {"dir": "inverse", "version": ver}, cls="inv")
    # The value object that parse() returns belongs to the caller, who may turn it into the COUNTERPART prefix by assigning its
    # attributes (zprv -> zpub: v.key_type = PUB; xprv -> tprv: v.testnet = True ...).  Afterwards every prefix still means
    # what it meant, for parse() and for a wallet import.
    from btc_hd_wallet.base_wallet import BaseWallet
    for (typ, net, purpose), ver in sorted(rb32.SLIP132.items()):
        try:
            v = Version.parse(version_int=ver)
            for attr, val in (("key_type", Key.PUB if v.key_type == Key.PRV else Key.PRV), ("testnet", not v.testnet),
                              ("bip_type", Bip.BIP49 if v.bip_type != Bip.BIP49 else Bip.BIP84)):
                try:
                    setattr(v, attr, val)
                except Exception:  # noqa  (an immutable value object is fine)
                    pass
        except Exception:  # noqa
            pass
    for (typ, net, purpose), ver in sorted(rb32.SLIP132.items()):
        bad = []
        try:
            v = Version.parse(version_int=ver)
            got = ("prv" if v.key_type == Key.PRV else "pub", "test" if v.testnet else "main", v.bip_type)
            if got != (typ, net, bipnum[purpose]) or int(v) != ver:
                bad.append(("parse_after_caller_edited_returned_objects", (typ, net, purpose), (got[0], got[1], str(got[2]), int(v))))
            xk = rb32.XKey(12345, None, b"\x07" * 32)
            w = BaseWallet.from_extended_key(xk.xprv(ver) if typ == "prv" else xk.xpub(ver))
            if bool(w.testnet) != (net == "test") or bool(w.watch_only) != (typ == "pub"):
                bad.append(("wallet_after_caller_edited_returned_objects", (typ, net), (w.watch_only, w.testnet)))
        except Exception as e:  # noqa
            bad.append(("after_edit.raised", None, e))
        ctx.judge("version_table", not bad, {"version": ver, "triple": [typ, net, purpose], "step": "after attribute edits"}, ver, bad,
                  cls="%s%s%d|after-edit" % (typ, net, purpose), mech="C07.version_table." + (bad[0][0] if bad else ""))


def judge_unknown_version(ctx, case):
    from btc_hd_wallet.wallet_utils import Version
    from btc_hd_wallet.base_wallet import BaseWallet
    ver = case["version"]
    if ver in rb32.SLIP132_INV:
        return None
    xk = bridge.xkey_from_case(case)
    bad = []
    # read-only looking queries first (in a case-dependent order); afterwards the version must STILL be unknown
    queries = [lambda: Version.valid_version(version=ver), lambda: Version.bip(version=ver),
               lambda: ver in Version.mainnet_versions() + Version.testnet_versions(),
               lambda: ver in Version.prv_versions() + Version.pub_versions()]
    for q in (queries if ver & 1 else queries[::-1]):
        try:
            q()
        except Exception:  # noqa
            pass
    # the caller edits the lists it was handed (they are the caller's): e.g. builds its own "supported" list in place
    if ver % 3 == 0:
        for getter in (Version.mainnet_versions, Version.testnet_versions, Version.prv_versions, Version.pub_versions):
            try:
                lst = getter()
                lst.append(ver)
            except Exception:  # noqa
                pass
    try:
        if Version.valid_version(version=ver):
            bad.append(("valid_version.true_after_queries", False, True))
    except Exception:  # noqa
        pass
    # (refusals must be stable: every one is asked three times in a row)
    ok, v, outcome = refused(lambda: Version.parse(version_int=ver))
    if not ok:
        bad.append(("Version.parse.accepted", "raise", "%s %s" % (outcome, (v.key_type, v.bip_type, v.testnet))))
    for private in (True, False):
        S = rb58.encode_check(xk.payload(ver, private))
        ok, w, outcome = refused(lambda: BaseWallet.from_extended_key(extended_key=S))
        if not ok:
            bad.append(("from_extended_key.accepted", "raise", {"testnet": w.testnet, "watch_only": w.watch_only, "attempt": outcome}))
    return ctx.judge("unknown_version", not bad, case, "raise", bad, cls="unknown|" + case["vtag"], mech="C07.unknown_version." + (bad[0][0] if bad else ""))


def judge_from_extended_key(ctx, case):
    from btc_hd_wallet.base_wallet import BaseWallet
    xk = bridge.xkey_from_case(case)
    ver = case["version"]
    typ, net, purpose = rb32.SLIP132_INV[ver]
    S = rb58.encode_check(xk.payload(ver, typ == "prv"))
    bad = []
    try:
        w = BaseWallet.from_extended_key(extended_key=S)
    except Exception as e:  # noqa
        return ctx.judge("from_extended_key", False, case, "wallet", e, cls="fek|%s%s%d" % (typ, net, purpose), mech="C07.from_extended_key.raised")
    if bool(w.testnet) != (net == "test") or bool(w.master.testnet) != (net == "test"):
        bad.append(("testnet", net == "test", (w.testnet, w.master.testnet)))
    if bool(w.watch_only) != (typ == "pub"):
        bad.append(("watch_only", typ == "pub", w.watch_only))
    if (w.bip85 is None) != (typ == "pub"):
        bad.append(("bip85", typ == "pub", w.bip85 is None))
    b = bridge.compare_node(w.master, xk, net == "test", typ == "prv")
    if b:
        bad.append(("master." + b[0][0], b[0][1], b[0][2]))
    return ctx.judge("from_extended_key", not bad, case, None, bad, cls="fek|%s%s%d" % (typ, net, purpose),
                     mech="C07.from_extended_key." + (bad[0][0] if bad else ""))


def run(ctx):
    rnd = ctx.rnd
    lzx = gen.leading_zero_x_scalars() + gen.leading_zero_y_scalars()
    if ctx.shard == 0:
        judge_version_table(ctx)
    # the boundary scalars are ENUMERATED (not left to the random classes): each with three of the twelve versions, and once
    # through the serialisers of a node built from the raw key
    n_ = 0
    for ci, (ktag, k) in enumerate(gen.scalar_corners()):
        for vi in (ci % 12, (ci + 5) % 12, (ci + 7) % 12):
            n_ += 1
            if ctx.mine(n_):
                base = gen_xkey(rnd, lzx)
                base.update({"k": k, "ktag": ktag, "version": ALL_VERSIONS[vi]})
                judge_roundtrip(ctx, base)
        n_ += 1
        if ctx.mine(n_):
            case = gen_xkey(rnd, lzx)
            case.update({"k": k, "ktag": ktag, "testnet": bool(ci & 1), "public": bool(ci & 2)})
            judge_serialize(ctx, case)
    for _ in range(ctx.scale(200, 8000)):
        base = gen_xkey(rnd, lzx)
        for ver in ALL_VERSIONS:           # all 12, exhaustive per payload
            case = dict(base)
            case["version"] = ver
            judge_roundtrip(ctx, case)
    for _ in range(ctx.scale(320, 20000)):
        case = gen_xkey(rnd, lzx)
        case["testnet"] = rnd.random() < 0.5
        case["public"] = rnd.random() < 0.4
        if case["public"] and rnd.random() < 0.4:
            case["ctor_key_form"] = rnd.choice(["uncompressed", "uncompressed", "hybrid", "raw64"])
        judge_serialize(ctx, case)
    # unknown versions
    n = 0
    cands = []
    for ver in ALL_VERSIONS:
        cands += [("pm1", ver + 1), ("pm1", ver - 1)]
        cands += [("bitflip", ver ^ (1 << b)) for b in range(32)]
    cands += [("edge", 0), ("edge", 0xFFFFFFFF), ("edge", 0x0488B21F), ("edge", 0x04000000)]
    # version prefixes that exist in the wild but are NOT among the twelve (SLIP-0132 multisig Ypub/Zpub/Upub/Vpub families,
    # other coins' BIP32 prefixes), and every 32-bit number written down anywhere in the code under test (vpkg.harvest)
    cands += [("registry", v) for v in FOREIGN_VERSIONS]
    from .. import harvest
    from ..core import REPO
    hv = [v for v in harvest.words32(REPO) if v not in rb32.SLIP132_INV]
    ctx.extra["harvested_32bit_numbers_tried_as_versions"] = len(hv)
    cands += [("harvested", v) for v in hv]
    for vtag, ver in cands:
        n += 1
        if ctx.mine(n):
            case = gen_xkey(rnd, lzx)
            case.update({"version": ver, "vtag": vtag})
            judge_unknown_version(ctx, case)
    for _ in range(ctx.scale(64, 5000)):
        case = gen_xkey(rnd, lzx)
        case.update({"version": rnd.getrandbits(32), "vtag": "random"})
        judge_unknown_version(ctx, case)
    for j in range(ctx.scale(240, 12000)):
        case = gen_xkey(rnd, lzx)
        case["version"] = ALL_VERSIONS[j % 12]
        judge_from_extended_key(ctx, case)
    # keys whose Base58 TEXT holds the four-letter prefix of ANOTHER version somewhere in its body ('...upub...' inside a zpub;
    # about one key in 10^3 holds one of the other eleven): searched for by varying the chain code, one per version per run -
    # the version BYTES decide, not what the text happens to spell
    import itertools
    prefixes = {}
    probe = rb32.XKey(7, None, b"\x00" * 32)
    for ver in ALL_VERSIONS:
        prefixes[ver] = rb58.encode_check(probe.payload(ver, rb32.SLIP132_INV[ver][0] == "prv"))[:4]
    for vi, ver in enumerate(ALL_VERSIONS):
        if not ctx.mine(vi):
            continue
        typ = rb32.SLIP132_INV[ver][0]
        base = gen_xkey(rnd, lzx)
        base.update({"depth": 3, "pindex": 5, "pfp": gen.rbytes(rnd, 4), "version": ver})
        xk0 = bridge.xkey_from_case(base)          # (the public key is computed once)
        others = [p_ for v_, p_ in prefixes.items() if v_ != ver]
        found = 0
        for ctr in itertools.count():
            if ctr > 40000 or found >= 2:
                break
            c_ = (ctr.to_bytes(4, "big") + base["c"])[:32]
            pay = rb32.XKey(xk0.k, xk0.K, c_, 3, 5, base["pfp"]).payload(ver, typ == "prv")
            text = _search_text(pay)                 # (hashlib-based, for the search only; a hit is re-encoded by the reference)
            if any(p_ in text[4:] for p_ in others) and any(p_ in rb58.encode_check(pay)[4:] for p_ in others):
                found += 1
                case = dict(base, c=c_, ctag="c:text-holds-foreign-prefix")
                judge_from_extended_key(ctx, case)
                judge_roundtrip(ctx, dict(case))
        ctx.extra["keys_whose_text_holds_a_foreign_prefix"] = ctx.extra.get("keys_whose_text_holds_a_foreign_prefix", 0) + found


def replay(ctx, monitor, case):
    if monitor == "roundtrip":
        judge_roundtrip(ctx, case)
    elif monitor == "serialize":
        judge_serialize(ctx, case)
    elif monitor == "unknown_version":
        judge_unknown_version(ctx, case)
    elif monitor == "from_extended_key":
        judge_from_extended_key(ctx, case)
    else:
        judge_version_table(ctx)
