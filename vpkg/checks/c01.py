"""C01 - BIP32 private child derivation matches the spec for every parent and index."""
from .. import gen, bridge, probes, inject
from ..ref import bip32 as rb32, secp
from ..ref.hashes import hmac_sha512 as ref_hmac

PROP = "C01"
LEVEL = "exploration"
SHARDS = {"quick": 8, "thorough": 16}
TIMEOUT = {"quick": 900, "thorough": 7200}
REQUIRED = {"ckd_priv": 500, "ckd_priv_prf": 100, "derive_path": 50}   # probe.* / ckd_state / prf_layout add observability, they are not required
ANCHORS = ['bip32:PrvKeyNode.ckd', 'bip32:PubKeyNode.derive_path', 'bip32:PrvKeyNode.extended_private_key', 'bip32:PubKeyNode.extended_public_key', 'helper:hmac_sha512']
RULE = ("seeded generator over (parent scalar class x chain-code class x depth x index class x "
        "construction form) with boundary corpora; PRF corners via chosen-output stub; distinct = "
        "distinct (monitor, exact case) digests; every case is non-trivial (a full CKDpriv "
        "recomputed by the independent model and compared field by field and as printed strings)"
        " EXTENSIONS: + parents as temporaries (orphan), copies / pickles of the derived node, index paths as tuple / iterator / generator, parents parsed from streams at an offset / as second record, 2^19+600 further derivations on the parent of a held child (fast mode), one node-level listing call of K-1 .. 2K+1 rows for every threshold K harvested from the code under test (vpkg.harvest / vpkg.longrun), short real-arithmetic listings across every power of two (carries), nodes of a caller-made subclass")
LEVEL_TEXT = ("Every PrvKeyNode.ckd execution (direct, via derive_path, and with the PRF substituted by a chosen-output "
              "stub) is adjudicated by an independent CKDpriv model: child scalar as integer and as the 32-byte field of the "
              "printed xprv, chain code, depth, child number, parent fingerprint, network flag, PRF input layout. Held on K "
              "executions over enumerated boundary classes plus seeded random interiors; not a proof for all 2^256 parents.")
LEVEL_NOTE = ("Trusted: CPython ints, hashlib SHA-256/512 + OpenSSL RIPEMD-160, the self-tested reference model. Live EC backend "
              "is the ecdsa fallback; libsecp256k1 arms are dead code in this sandbox and unobserved.")
TECHNIQUE = "runtime oracle on real ckd calls (wrappers + icontract state contracts) + chosen-output PRF failpoint"
ASSUMPTIONS = ["live EC backend is the ecdsa fallback (libsecp256k1 absent in the sandbox)",
               "only BIP32-valid parents (scalar in [1,n-1], depth 0..254) are generated"]
N = secp.N
H = 1 << 31


_POOL = {}


def _mk_parent(case):
    """Parent objects are kept in a small pool and REUSED when the same parent recurs (case['reuse']), so that children
    lists, caches or any other state left by earlier derivations is present when the next one is judged."""
    xk = bridge.xkey_from_case(case)
    vp = case.get("vpurpose", 44)      # SLIP-132 flavour of the serialisation the parent is parsed from (x/y/z, t/u/v)
    if not case.get("reuse"):
        return xk, bridge.mk_node(xk, case["testnet"], case.get("form", "ctor"), purpose=vp)
    key = (case["k"], case["c"], case["depth"], case["pindex"], case["pfp"], case["testnet"], case.get("form", "ctor"), vp)
    if key not in _POOL:
        if len(_POOL) > 200:
            _POOL.clear()
        _POOL[key] = bridge.mk_node(xk, case["testnet"], case.get("form", "ctor"), purpose=vp)
    return xk, _POOL[key]


def _cls(case, extra=""):
    return "%s|%s|d%s|%s|%s%s%s" % (case.get("ktag", "k"), case.get("ctag", "c"),
                                  "0" if case["depth"] == 0 else ("hi" if case["depth"] > 127 else "lo"),
                                  "hard" if case["index"] >= H else "norm", case.get("form", "ctor"),
                                    "" if case.get("form", "ctor") == "ctor" else ":v%d" % case.get("vpurpose", 44), extra)


def judge_ckd_priv(ctx, case):
    xk, node = _mk_parent(case)
    i = case["index"]
    exp = rb32.ckd_priv(xk, i)
    via = case.get("via", "ckd")
    try:
        if via == "derive_path":
            child = node.derive_path(index_list=[i])
        elif via == "generate_children":
            child = node.generate_children(interval=(i, i + 1))[0]
        elif via == "wallet.by_path" and node.depth == 0:
            from btc_hd_wallet.base_wallet import BaseWallet
            from ..ref import path as rpath
            child = BaseWallet(master=node, testnet=case["testnet"]).by_path(rpath.fmt([i], "m"))
        else:
            child = node.ckd(index=i)
    except Exception as e:  # noqa
        return ctx.judge("ckd_priv", False, case, exp.fields(), e, cls=_cls(case), outcome="raised",
                         mech="C01.ckd_priv.raised")
    tr = case.get("transport")
    if tr:
        # the derived node travels through Python's object protocol (what multiprocessing, a cache on disk or a defensive
        # copy does): the copy must say what the original says.  A class that refuses to be copied / pickled is fine.
        import copy
        import pickle
        try:
            child = {"copy": copy.copy, "deepcopy": copy.deepcopy,
                     "pickle0": lambda o: pickle.loads(pickle.dumps(o, 0)), "pickle2": lambda o: pickle.loads(pickle.dumps(o, 2)),
                     "pickle5": lambda o: pickle.loads(pickle.dumps(o, 5))}[tr](child)
        except Exception as e:  # noqa
            return ctx.judge("ckd_priv", True, case, exp.fields(), e, cls="transport|%s|refused" % tr, outcome="transport-refused")
    if case.get("orphan") and not case.get("reuse"):
        # the caller keeps ONLY the derived node (the parent was a temporary): what the child prints must not depend on the
        # parent object still being alive
        import gc
        del node
        gc.collect()
    bad = bridge.compare_node(child, exp, case["testnet"], True)
    bad += bridge.compare_strings(child, exp, case["testnet"], True)
    if not bad and case.get("all_versions"):
        # every SLIP-132 flavour of the derived node, asked on the SAME object in a case-dependent order, twice
        items = sorted(rb32.SLIP132.items(), key=lambda kv: (kv[1] * (i | 1)) % 9973)
        for (typ, net, pp), v in items + items[:4]:
            got = child.extended_private_key(version=v) if typ == "prv" else child.extended_public_key(version=v)
            want = exp.xprv(v) if typ == "prv" else exp.xpub(v)
            if got != want:
                bad.append(("explicit_version_%s%s%d" % (typ, net, pp), want, got))
                break
    # full 32-byte serialisation: the 78-byte payload's key field
    return ctx.judge("ckd_priv", not bad, case, exp.fields(), bad, cls=_cls(case),
                     mech="C01.ckd_priv." + (bad[0][0] if bad else ""))


def judge_ckd_priv_prf(ctx, case):
    """Chosen PRF output: arithmetic after the PRF, plus the PRF input layout."""
    import btc_hd_wallet.bip32 as b32
    xk, node = _mk_parent(case)
    i = case["index"]
    I = case["IL"].to_bytes(32, "big") + case["IR"]
    try:
        exp = rb32.ckd_priv_from_I(xk, i, I)
    except rb32.InvalidChild:
        return None  # C18's business
    with inject.PRFStub([b32], plan=lambda key, msg: I) as stub:
        try:
            child = node.ckd(index=i)
            err = None
        except Exception as e:  # noqa
            child, err = None, e
    # layout monitor
    want = (xk.c, rb32.ckd_data(xk, i))
    got = [(k, m) for k, m, _o, sub in stub.calls if sub]
    ctx.judge("prf_layout", len(got) == 1 and got[0] == want, case,
              {"key": want[0], "msg": want[1]}, [{"key": k, "msg": m} for k, m in got],
              cls="layout|" + ("hard" if i >= H else "norm"), mech="C01.prf_layout")
    if err is not None:
        return ctx.judge("ckd_priv_prf", False, case, exp.fields(), err, cls=_cls(case, "|" + case["iltag"]),
                         outcome="raised", mech="C01.ckd_priv_prf.raised")
    bad = bridge.compare_node(child, exp, case["testnet"], True)
    bad += bridge.compare_strings(child, exp, case["testnet"], True)
    return ctx.judge("ckd_priv_prf", not bad, case, exp.fields(), bad, cls=_cls(case, "|" + case["iltag"]),
                     mech="C01.ckd_priv_prf." + (bad[0][0] if bad else ""))


def judge_derive_path(ctx, case):
    """Transitivity: derive_path(list) == reference fold; strings equal."""
    xk, node = _mk_parent(case)
    path = case["path"]
    exp = rb32.derive(xk, path)
    pform = case.get("pform", "list")
    try:
        got = node.derive_path(index_list=gen.path_form(pform, path))
    except TypeError as e:
        if pform in ("list", "tuple"):
            return ctx.judge("derive_path", False, case, exp.fields(), e, cls="path|len%d" % len(path), outcome="raised", mech="C01.derive_path.raised")
        return ctx.judge("derive_path", True, case, exp.fields(), e, cls="path|form-%s" % pform, outcome="shape-refused")
    except Exception as e:  # noqa
        return ctx.judge("derive_path", False, case, exp.fields(), e, cls="path|len%d" % len(path),
                         outcome="raised", mech="C01.derive_path.raised")
    if case.get("orphan") and not case.get("reuse"):
        import gc
        del node
        gc.collect()
    bad = bridge.compare_node(got, exp, case["testnet"], True)
    bad += bridge.compare_strings(got, exp, case["testnet"], True)
    if case.get("orphan") and not case.get("reuse"):
        # (no walk up the parent links here: whether a node keeps its ancestors alive is the library's business, only what
        # the node itself reports is judged)
        return ctx.judge("derive_path", not bad, case, exp.fields(), bad, cls="path|len%d|orphan" % min(len(path), 13),
                         mech="C01.derive_path." + (bad[0][0] if bad else ""))
    # walk up the parent links: every ancestor must be the reference ancestor
    n, depth_back = got, len(path)
    while depth_back > 0 and n is not None and not bad:
        n = n.parent
        depth_back -= 1
        if n is None:
            bad.append(("parent_link", "node", None))
            break
        e2 = rb32.derive(xk, path[:depth_back])
        bad += bridge.compare_node(n, e2, case["testnet"], True)
    return ctx.judge("derive_path", not bad, case, exp.fields(), bad,
                     cls="path|len%d|%s|%s" % (min(len(path), 13), case.get("form", "ctor"), pform),
                     mech="C01.derive_path." + (bad[0][0] if bad else ""))


MONITORS = {"ckd_priv": judge_ckd_priv, "ckd_priv_prf": judge_ckd_priv_prf, "derive_path": judge_derive_path}


# --------------------------------------------------------------- probes
def install_probes(ctx):
    """Oracle on *every* PrvKeyNode.ckd call (incl. those made inside
    derive_path), plus icontract state contracts."""
    import btc_hd_wallet.bip32 as b32
    inst = probes.Installed()
    state = {"stubbed": False}

    def on_ckd(name, a, kw, res, exc):
        if state["stubbed"]:
            return
        self = a[0]
        if type(self) is not b32.PrvKeyNode:
            return
        i = kw.get("index", a[1] if len(a) > 1 else None)
        try:
            par = bridge.ref_from_node(self)
            if not (isinstance(i, int) and 0 <= i < 1 << 32 and secp.valid_scalar(par.k) and par.depth < 255):
                return
            exp = rb32.ckd_priv(par, i)
        except rb32.InvalidChild:
            return
        case = {"k": par.k, "c": par.c, "depth": par.depth, "pindex": par.index, "pfp": par.pfp,
                "testnet": self.testnet, "index": i, "form": "probe"}
        if exc is not None:
            ctx.judge("probe.PrvKeyNode.ckd", False, case, exp.fields(), exc, cls="probe", outcome="raised",
                      mech="C01.probe.ckd.raised")
            return
        bad = bridge.compare_node(res, exp, self.testnet, True)
        ctx.judge("probe.PrvKeyNode.ckd", not bad, case, exp.fields(), bad, cls="probe|" + ("hard" if i >= H else "norm"),
                  mech="C01.probe.ckd." + (bad[0][0] if bad else ""))

    def rec(name, ok, self, result, old):
        if name.endswith("(observation)"):
            k = "children_bookkeeping_" + ("as_before" if ok else "differs")
            ctx.extra[k] = ctx.extra.get(k, 0) + 1
            return
        ctx.judge("ckd_state", ok, None if ok else {"contract": name, "parent": bridge.node_obs(self)},
                  old, None, cls=name, mech="C01." + name)

    probes.try_install(ctx, "icontract PrvKeyNode.ckd", probes.contract_ckd_state, inst, b32.PrvKeyNode, rec)
    probes.try_install(ctx, "observe PrvKeyNode.ckd", probes.observe_method, inst, b32.PrvKeyNode, "ckd", on_ckd)
    return inst, state


# --------------------------------------------------------------- workload
def gen_parent(rnd, ctx=None):
    ktag, k = gen.scalar(rnd)
    ctag, c = gen.chain_code(rnd)
    d = gen.depth(rnd)
    case = {"k": k, "c": c, "depth": d, "ktag": ktag, "ctag": ctag,
            "pindex": 0 if d == 0 else gen.index(rnd)[1],
            "pfp": b"\x00" * 4 if d == 0 else gen.rbytes(rnd, 4),
            "testnet": rnd.random() < 0.5,
            "form": rnd.choice(["ctor", "ctor", "str", "bytes", "stream", "stream-offset", "stream-second", "sub-ctor", "sub-str"]), "vpurpose": rnd.choice([44, 44, 49, 84])}
    return case


def il_corners(k):
    """(tag, IL) algebraic corners for parent scalar k; only valid ones are
    judged here (invalid -> C18)."""
    out = [("IL=1", 1), ("IL=n-1", N - 1), ("IL=0", 0)]
    out.append(("child=n-1", (N - 1 - k) % N))
    out.append(("child=1:wrap", (N + 1 - k) % N))
    out.append(("child=2", (2 - k) % N))
    for t in (8, 64, 128, 200, 240, 247):
        out.append(("child=2^%d" % t, ((1 << t) - k) % N))
    return [(t, v) for t, v in out if 0 <= v < N]


def run(ctx):
    rnd = ctx.rnd
    inst, pstate = install_probes(ctx)
    try:
        # 1. corner cross-product (enumerated, partitioned across shards)
        n = 0
        for ktag, k in gen.scalar_corners():
            for i in gen.INDEX_CORNERS:
                for d in (0, 1, 254):
                    n += 1
                    if not ctx.mine(n):
                        continue
                    case = {"k": k, "c": gen.rbytes(rnd, 32), "depth": d, "ktag": ktag, "ctag": "c:random",
                            "pindex": 0 if d == 0 else 7, "pfp": b"\x00" * 4 if d == 0 else b"\x01\x02\x03\x04",
                            "testnet": bool(n & 1), "form": ("ctor", "str")[n % 2], "index": i, "orphan": n % 3 == 0,
                            "via": ("ckd", "derive_path", "generate_children")[(n // 3) % 3],
                            "transport": (None, None, "copy", "deepcopy", "pickle0", "pickle2", "pickle5")[n % 7]}
                    judge_ckd_priv(ctx, case)
        # 2. random cases
        recent = []
        for _ in range(ctx.scale(2600, 380000)):
            if recent and rnd.random() < 0.35:
                # same parent OBJECT again: a new index, a repeated index, or the hardened/normal twin of an earlier one
                case = dict(rnd.choice(recent))
                r = rnd.random()
                case["index"] = case["index"] if r < 0.3 else ((case["index"] ^ H) if r < 0.6 else gen.index(rnd)[1])
            else:
                case = gen_parent(rnd)
                case["index"] = gen.index(rnd)[1]
                # twins: same key with another chain code / same chain code with another key / other network
                if recent and rnd.random() < 0.25:
                    tw = dict(rnd.choice(recent))
                    which = rnd.choice(["c", "k", "net", "depth"])
                    if which == "c":
                        tw["c"] = gen.rbytes(rnd, 32)
                    elif which == "k":
                        tw["ktag"], tw["k"] = gen.scalar(rnd)
                    elif which == "net":
                        tw["testnet"] = not tw["testnet"]
                    elif tw["depth"] < 254:
                        tw["depth"] += 1
                        tw["pfp"] = tw["pfp"] if tw["depth"] > 1 else b"\x01\x02\x03\x04"
                    case = tw
            case["reuse"] = True
            case["via"] = rnd.choice(["ckd", "ckd", "derive_path", "generate_children", "wallet.by_path"])
            case["all_versions"] = rnd.random() < 0.15
            case["transport"] = rnd.choice([None] * 8 + ["copy", "deepcopy", "pickle2", "pickle5"])
            recent.append(case)
            del recent[:-12]
            judge_ckd_priv(ctx, case)
        # 3. PRF corners
        pstate["stubbed"] = True
        for _ in range(ctx.scale(60, 4000)):
            base = gen_parent(rnd)
            for iltag, il in il_corners(base["k"]) + [("IL=random", rnd.randrange(1, N))]:
                case = dict(base)
                case.update({"index": gen.index(rnd)[1], "IL": il, "IR": gen.rbytes(rnd, 32), "iltag": iltag})
                judge_ckd_priv_prf(ctx, case)
        pstate["stubbed"] = False
        # 4. paths
        for _ in range(ctx.scale(160, 12000)):
            case = gen_parent(rnd)
            L = rnd.choice([1, 2, 3, 4, 5, 5, 6, 8, 12])
            case["depth"] = min(case["depth"], 254 - L)
            if case["depth"] == 0:
                case["pindex"], case["pfp"] = 0, b"\x00" * 4
            case["path"] = [gen.index(rnd)[1] for _ in range(L)]
            case["index"] = case["path"][-1]
            case["pform"] = rnd.choice(gen.PATH_FORMS)
            case["orphan"] = rnd.random() < 0.3
            judge_derive_path(ctx, case)
        if ctx.thorough and ctx.shard == 0:
            case = gen_parent(rnd)
            case.update({"depth": 0, "pindex": 0, "pfp": b"\x00" * 4, "path": [gen.index(rnd)[1] for _ in range(254)]})
            case["index"] = case["path"][-1]
            judge_derive_path(ctx, case)
    finally:
        inst.remove()
    # what a derived node prints (parent fingerprint, extended keys) after its parent has served 2^19 + 600 further derivations
    # (fast mode, see c13.judge_capacity / inject.FastEC): run without the probes
    if ctx.mine_once(2):
        from .c13 import judge_capacity
        judge_capacity(ctx, {"seed": gen.rbytes(rnd, 32), "testnet": bool(ctx.seed & 1), "kind": "private",
                             "n": (1 << 19) + 600 if not ctx.thorough else (1 << 21) + 600, "fast": True, "how": "mixed"})
    # ONE listing call of n rows on a private parent, n aimed at every threshold written down in the code under test
    # (vpkg.harvest / vpkg.longrun): count, child numbers in order, and sampled rows against the same child derived alone
    from .. import longrun
    for case in longrun.node_listing_cases(ctx, "prv", gen.rbytes(rnd, 32)):
        longrun.judge_node_listing(ctx, "long_listing", "C01", case)
    ctx.extra["harvested_thresholds"] = longrun.thresholds()
    # short listings that cross every power of two (carries in the serialised child number)
    cseed = gen.rbytes(rnd, 32)
    for b in range(1, 33):
        if ctx.mine(b):
            longrun.judge_carry_listing(ctx, "long_listing", "C01", {"seed": cseed, "testnet": bool(b & 1), "side": "prv", "b": b})


def replay(ctx, monitor, case):
    inst, pstate = install_probes(ctx)
    try:
        if monitor in ("ckd_priv_prf", "prf_layout"):
            pstate["stubbed"] = True
            judge_ckd_priv_prf(ctx, case)
        elif monitor == "capacity":
            from .c13 import judge_capacity
            judge_capacity(ctx, case)
        elif monitor == "long_listing":
            from .. import longrun
            if "b" in case:
                longrun.judge_carry_listing(ctx, "long_listing", "C01", case)
            else:
                longrun.judge_node_listing(ctx, "long_listing", "C01", case)
        elif monitor == "derive_path":
            judge_derive_path(ctx, case)
        else:
            case.setdefault("form", "ctor")
            if case["form"] == "probe":
                case["form"] = "ctor"
            judge_ckd_priv(ctx, case)
    finally:
        inst.remove()
