"""Scenarios whose only variable is LENGTH: one listing call of n rows, n distinct requests to a pure function followed by a
second look at the earliest ones.  The lengths are aimed at the thresholds written down in the code under test
(vpkg.harvest): for every harvested number K in listing / capacity range the workloads use K-1, K, K+1, K+3, 2K, 2K+1 rows or
requests (K+3 only where one row costs hundreds of microseconds).  Every job is capped by an ESTIMATE of its cost against a
time budget before it starts (a job that cannot fit is recorded as not run - never as held), so that a quick run stays quick on
a tree whose only big constants are 10^6-sized test vectors.

Long listings are made in fast mode (inject.FastEC with `variety` PRF outputs): judgements compare the library with ITSELF -
row j of the listing against a child derived alone, with the same substituted PRF, from a second parent object parsed from the
first one's own serialisation - plus what needs no reference at all (row count, child numbers in order, depth, network flag,
path text, parent fingerprint)."""
import time

from . import harvest, inject
from .core import REPO
from .ref import path as rpath

H = 1 << 31
PER_ROW_S = {"prv": 40e-6, "pub": 200e-6, "wallet": 330e-6, "request": 40e-6}


def thresholds():
    return harvest.sizes(REPO)


def lengths(ctx, wide=True):
    """[(K, n)] ascending, without duplicates."""
    seen, out = set(), []
    for k in thresholds():
        for n in (harvest.around(k) if wide else [k + 3]):
            if n not in seen:
                seen.add(n)
                out.append((k, n))
    return sorted(out, key=lambda t: t[1])


MAX_ROWS_IN_MEMORY = 1300000     # (a listing is held in memory by the library: 16 shards x a few GB is the limit of this machine)


def affordable(ctx, kind, n, budget_quick=30.0, budget_thorough=1500.0, k=None):
    est = n * PER_ROW_S[kind]
    if k is not None and k in harvest.baseline():
        budget_quick = min(budget_quick, 8.0)     # (a number the pinned tree already held: full treatment in the thorough tier)
    ok = est <= (budget_thorough if ctx.tier == "thorough" else budget_quick)
    if kind in ("prv", "pub", "wallet") and n > MAX_ROWS_IN_MEMORY:
        ok = False
    if not ok:
        lst = ctx.extra.setdefault("length_jobs_not_run_estimated_over_budget", [])
        tag = "%s:%d" % (kind, n)
        if tag not in lst and len(lst) < 64:
            lst.append(tag)
    return ok


def sample_positions(n, k, rnd, extra=200):
    pos = {0, 1, 2, n - 1, n - 2, n - 3, n // 2}
    if k and k > 0:
        for b in range(0, n + k, k):
            for d in (-2, -1, 0, 1, 2):
                pos.add(b + d)
    for _ in range(extra):
        pos.add(rnd.randrange(0, max(1, n)))
    return sorted(p for p in pos if 0 <= p < n)


def node_listing(case, visit, variety=61):
    """One generate_children call of case['n'] rows on a parent built from case (seed, testnet, side, start); `visit(parent,
    rows, fresh)` runs while the substituted PRF is still in place; fresh(i) derives child i alone from a second parent object."""
    import btc_hd_wallet.bip32 as b32
    from btc_hd_wallet.paper_wallet import PaperWallet
    tn, side, s, n = case["testnet"], case["side"], case["start"], case["n"]
    W = PaperWallet.from_bip39_seed_bytes(bip39_seed=case["seed"], testnet=tn)
    coin = 1 if tn else 0
    base = W.by_path("m/84'/%d'/0'/0" % coin)
    if side == "prv":
        text = base.extended_private_key()
        parent = b32.PrvKeyNode.parse(text, testnet=tn)
        second = b32.PrvKeyNode.parse(text, testnet=tn)
    else:
        text = base.extended_public_key()
        parent = b32.PubKeyNode.parse(text, testnet=tn)
        second = b32.PubKeyNode.parse(text, testnet=tn)
    with inject.FastEC([b32], variety=variety):
        rows = parent.generate_children(interval=(s, s + n))
        return visit(parent, rows, lambda i: second.ckd(index=i))


def judge_node_listing(ctx, monitor, mechp, case, more=None):
    """The self-consistency judgement described in the module docstring.  `more(parent, rows, positions, bad)` lets a check add
    its own look at the same rows."""
    private = case["side"] == "prv"
    tn, s, n, k = case["testnet"], case["start"], case["n"], case.get("k", 0)

    def visit(parent, rows, fresh):
        bad = []
        rows = list(rows)
        if len(rows) != n:
            bad.append(("row_count", n, len(rows)))
        idx = [r.index for r in rows]
        if idx != list(range(s, s + len(rows))):
            j = next((j for j, v in enumerate(idx) if v != s + j), None)
            bad.append(("child_numbers_in_order", (j, s + j if j is not None else None), (j, idx[j] if j is not None else None)))
        flags = {bool(r.testnet) for r in rows}
        if rows and flags != {bool(tn)}:
            bad.append(("network_flag", bool(tn), sorted(flags)))
        pfp = parent.fingerprint()
        pstr = str(parent)
        positions = sample_positions(min(n, len(rows)), k, ctx.rnd)
        for j in positions:
            if bad:
                break
            r, i = rows[j], s + j
            f = fresh(i)
            if r.depth != parent.depth + 1:
                bad.append(("depth", parent.depth + 1, (j, r.depth)))
            elif bytes(r.parent_fingerprint) != bytes(pfp):
                bad.append(("parent_fingerprint", bytes(pfp), (j, bytes(r.parent_fingerprint))))
            elif str(r) != rpath.fmt([i], pstr):
                bad.append(("path_text", rpath.fmt([i], pstr), (j, str(r))))
            elif r.extended_public_key() != f.extended_public_key():
                bad.append(("xpub_vs_child_derived_alone", f.extended_public_key(), (j, r.extended_public_key())))
            elif private and r.extended_private_key() != f.extended_private_key():
                bad.append(("xprv_vs_child_derived_alone", "<xprv of child derived alone>", (j, "differs")))
        if more is not None and not bad:
            more(parent, rows, positions, bad)
        ctx.extra["long_listing_rows"] = ctx.extra.get("long_listing_rows", 0) + len(rows)
        return bad
    try:
        bad = node_listing(case, visit)
    except Exception as ex:  # noqa
        return ctx.judge(monitor, False, case, "%d rows" % n, ex, cls="long-listing|%s|raised" % case["side"], mech=mechp + ".long_listing.raised")
    return ctx.judge(monitor, not bad, case, None, bad[:3], cls="long-listing|%s|n%d|%s" % (case["side"], n, "test" if tn else "main"),
                     mech=mechp + ".long_listing." + (bad[0][0] if bad else ""))


def node_listing_cases(ctx, side, seed_bytes, wide=True):
    """Cases of this shard (heavy one-offs are spread over the shards)."""
    out = []
    for j, (k, n) in enumerate(lengths(ctx, wide)):
        if not ctx.mine_once(j + (7 if side == "pub" else 0)):
            continue
        if not affordable(ctx, side, n, k=k):
            continue
        r = ctx.rnd.random()
        if side == "prv" and r < 0.25:
            s = H - n // 2            # straddles the hardened boundary
        elif r < 0.5:
            s = max(0, H - n) if side == "pub" else max(0, 2 * H - n)
        else:
            s = ctx.rnd.choice([0, 0, 5, 1000])
        out.append({"seed": seed_bytes, "testnet": bool((j + ctx.seed) & 1), "side": side, "start": s, "n": n, "k": k})
    return out


def ask_again(ctx, monitor, mechp, name, fn, make, n, k, keep=96, budget_s=None, extra_case=None):
    """n DISTINCT requests to a function whose result must depend on its argument only; the answers to the first `keep`, to
    `keep` spread over the run and to the last few are kept (they were right when given: `make(j)` returns (argument, expected
    answer)), and the same requests are made again at the end.  A memo / ring / LRU of any capacity below n shows here and
    nowhere below its capacity."""
    t0 = time.time()
    budget = budget_s if budget_s is not None else (45.0 if ctx.tier == "quick" else 1200.0)
    step = max(1, n // keep)
    kept, bad, done = [], [], 0
    for j in range(n):
        if j & 1023 == 0 and time.time() - t0 > budget:
            ctx.extra["ask_again_runs_cut_short_by_time_budget"] = ctx.extra.get("ask_again_runs_cut_short_by_time_budget", 0) + 1
            break
        arg, exp = make(j)
        got = fn(arg)
        done += 1
        if j < keep or j % step == 0 or j >= n - 8:
            kept.append((j, arg, exp))
            if got != exp:
                bad.append(("first_answer", j, exp, got))
                break
    if not bad:
        for j, arg, exp in kept:
            try:
                got = fn(arg)
            except Exception as ex:  # noqa
                got = ex
            if got != exp:
                bad.append(("second_look_after_%d_distinct_requests" % done, j, exp, got))
                break
    ctx.extra["ask_again_requests"] = ctx.extra.get("ask_again_requests", 0) + done
    case = dict(extra_case or {}, function=name, n=n, k=k, done=done)
    return ctx.judge(monitor, not bad, case, None, bad[:2], cls="ask-again|%s|n%d" % (name, n),
                     mech=mechp + ".history." + name + ("." + bad[0][0].split("_after_")[0] if bad else ""))


def histories(ctx, monitor, mechp, specs, first_job=0, budget_quick=60.0):
    """ask_again for several functions: specs = [(name, fn, make)], one job per (threshold, function), spread over the shards."""
    job = first_job
    for k, n in lengths(ctx, wide=False):
        for name, fn, make in specs:
            job += 1
            if not ctx.mine_once(job) or not affordable(ctx, "request", n, budget_quick=budget_quick, k=k):
                continue
            ask_again(ctx, monitor, mechp, name, fn, make, n, k, budget_s=None if ctx.thorough else 2 * budget_quick)


def judge_carry_listing(ctx, monitor, mechp, case):
    """A short listing that CROSSES a power of two (child numbers 2^b-3 .. 2^b+2, b = 1 .. 32): an implementation that steps
    from one child number to the next by its own arithmetic (incrementing a serialised counter, reusing a prefix of the message)
    goes wrong where a carry leaves the bytes it touches.  Real arithmetic, judged against the reference model."""
    import btc_hd_wallet.bip32 as b32
    from .ref import bip32 as rb32
    tn, side, b = case["testnet"], case["side"], case["b"]
    s = max(0, (1 << b) - 3)
    e = min((1 << b) + 3, 1 << 32)
    m = rb32.master(case["seed"])
    refparent = rb32.derive(m, [84 + H, (1 if tn else 0) + H, H, 0])
    if side == "prv":
        parent = b32.PrvKeyNode.parse(refparent.xprv(rb32.version_for("prv", tn, 44)), testnet=tn)
    else:
        parent = b32.PubKeyNode.parse(refparent.xpub(rb32.version_for("pub", tn, 44)), testnet=tn)
        e = min(e, H)
    if e <= s:
        return None
    bad = []
    try:
        rows = list(parent.generate_children(interval=(s, e)))
        if [r.index for r in rows] != list(range(s, e)):
            bad.append(("child_numbers", list(range(s, e)), [r.index for r in rows]))
        for r, i in zip(rows, range(s, e)):
            try:
                ref = rb32.ckd_priv(refparent, i) if side == "prv" else rb32.ckd_pub(refparent.neuter(), i)
            except rb32.InvalidChild:
                continue
            want = ref.xprv(rb32.version_for("prv", tn, 44)) if side == "prv" else ref.xpub(rb32.version_for("pub", tn, 44))
            got = r.extended_private_key() if side == "prv" else r.extended_public_key()
            if got != want:
                bad.append(("row_%d" % i, want[:24], got[:24]))
                break
    except Exception as ex:  # noqa
        bad.append(("raised", None, ex))
    return ctx.judge(monitor, not bad, case, None, bad[:2], cls="carry-listing|%s|2^%d" % (side, b), mech=mechp + ".carry_listing." + (bad[0][0].split("_")[0] if bad else ""))
