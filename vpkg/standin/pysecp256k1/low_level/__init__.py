from .secp256k1 import Libsecp256k1Exception  # noqa
