class Libsecp256k1Exception(EnvironmentError):
    pass
