"""Pure-Python STAND-IN for the six pysecp256k1 functions btc_hd_wallet uses.

libsecp256k1 is not installed in this sandbox, so the `try:` arms of keys.py / bip32.py / bip85.py never execute.
Putting this package first on sys.path makes them live, with the error behaviour documented by pysecp256k1 0.2.0
(ValueError for wrong types/lengths, Libsecp256k1Exception for invalid keys / tweaks / points; ec_pubkey_tweak_add
mutates its argument in place and returns it, exactly like the ctypes binding does).  Results obtained in this
configuration are OBSERVATIONS about code that cannot run here; they never decide a verdict.
"""
import os
import sys

_V = os.path.dirname(os.path.dirname(os.path.dirname(os.path.dirname(os.path.abspath(__file__)))))
if _V not in sys.path:
    sys.path.append(_V)
from vpkg.ref import secp as _s  # noqa: E402
from .low_level import Libsecp256k1Exception  # noqa: E402


class Secp256k1Pubkey:
    __slots__ = ("pt",)

    def __init__(self, pt):
        self.pt = pt


def _bytes32(b, what):
    if not isinstance(b, (bytes, bytearray)) or len(b) != 32:
        raise ValueError("'%s' must be of type bytes and length 32" % what)
    return int.from_bytes(b, "big")


def ec_seckey_verify(seckey):
    k = _bytes32(seckey, "seckey")
    if not 0 < k < _s.N:
        raise Libsecp256k1Exception("secret key is invalid")


def ec_pubkey_create(seckey):
    k = _bytes32(seckey, "seckey")
    if not 0 < k < _s.N:
        raise Libsecp256k1Exception("secret key is invalid")
    return Secp256k1Pubkey(_s.gmul(k))


def ec_pubkey_serialize(pubkey, compressed=True):
    if not isinstance(pubkey, Secp256k1Pubkey):
        raise ValueError("'pubkey' must be Secp256k1Pubkey")
    return _s.ser(pubkey.pt, bool(compressed))


def ec_pubkey_parse(pubkey_ser):
    if not isinstance(pubkey_ser, (bytes, bytearray)) or len(pubkey_ser) not in (33, 65):
        raise ValueError("'pubkey_ser' must be of type bytes and length 33 or 65")
    kind, pt = _s.classify_sec(bytes(pubkey_ser))
    if kind != "point":
        raise Libsecp256k1Exception("pubkey could not be parsed or is invalid")
    return Secp256k1Pubkey(pt)


def ec_seckey_tweak_add(seckey, tweak32):
    k = _bytes32(seckey, "seckey")
    t = _bytes32(tweak32, "tweak32")
    if not 0 < k < _s.N or t >= _s.N or (k + t) % _s.N == 0:
        raise Libsecp256k1Exception("arguments are invalid or the resulting secret key would be invalid")
    return ((k + t) % _s.N).to_bytes(32, "big")


def ec_pubkey_tweak_add(pubkey, tweak32):
    if not isinstance(pubkey, Secp256k1Pubkey):
        raise ValueError("'pubkey' must be Secp256k1Pubkey")
    t = _bytes32(tweak32, "tweak32")
    if t >= _s.N:
        raise Libsecp256k1Exception("arguments are invalid")
    res = _s.add(_s.gmul(t), pubkey.pt) if t else pubkey.pt
    if res is None:
        raise Libsecp256k1Exception("the resulting public key would be invalid")
    pubkey.pt = res            # in place, like secp256k1_ec_pubkey_tweak_add through ctypes
    return pubkey
